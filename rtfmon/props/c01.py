"""C01 - every accepted document encodes to well-formed RTF.

Oracle at the API boundary: the string returned by rtf_encode() is read by the
independent reader; structure, lexical validity and the row clauses are
checked.  Invariant at a hook: every Row._as_rtf call emits one definition and
one content per cell.  The only tolerated exception is ValueError when the
spec's group_by keys are non-contiguous by an independent predicate.
"""
from __future__ import annotations

import itertools
import random

from .. import expect as E
from .. import gen as G
from .. import harness as H
from .. import reader as R
from ..spec import strip_meta

PID = "C01"
LEVEL = "exploration"
RULE = ("seeded random document specs over all generator dimensions (tables 0..40 rows x 1..8 cols, "
        "strings with blanks / ints / floats / nulls, every header mode incl. as_colheader=False, "
        "footnote/source as table/paragraph/absent, placements, orientation, custom paper, nrow 1..50, "
        "page_by/subline_by/group_by/new_page/pageby_row/pageby_header, attribute shapes scalar/row/matrix, "
        "integer and half-point font sizes; multi-section and figure documents) plus the full product "
        "header mode x strategy x footnote mode x source mode; a case is one spec accepted at construction; "
        "non-trivial = has >=1 data row or a figure and >=2 optional components; distinct by spec hash. Extra "
        "workload: the repository's own 423 tests run with a reader attached to rtf_encode (documents inside the "
        "quantifier must be well-formed too)")
ASSUMPTIONS = ["the independent reader (rtfmon/reader.py, self-tested by setup_cmd) defines well-formedness",
               "unknown-but-well-formed control words (\\ffroman, \\totalpage) are not lexical errors"]
DECIDING = ["docs_parsed", "rows_parsed", "row_hook_calls"]
FLOOR = {"quick": 1500, "thorough": 30000}

STRATEGIES = ["plain", "page_by", "page_by_new", "page_by_new_first", "subline", "subline_page_by", "nested"]
HEADERS = ["default", "none", "explicit", "explicit_w", "tworow", "as_colheader_false"]
TBL = [None, True, False]


def plan(tier, seed):
    per = 170 if tier == "quick" else 3600
    descs = [{"kind": "random", "n": per} for _ in range(15)]
    descs.append({"kind": "product", "reps": 1 if tier == "quick" else 6})
    # the repository's own tests as a workload: every document they encode is read back too
    descs.append({"kind": "repo_tests", "timeout": 1200})
    return descs


def classify(v):
    d = v.get("detail") or {}
    return None


def optional_components(spec):
    return sum(1 for k in ("title", "subline", "page_header", "page_footer", "footnote", "source")
               if isinstance(spec.get(k), dict)) + (1 if spec.get("colheader", "default") not in ("none",) else 0)


def nontrivial(spec):
    if spec.get("kind") == "figure":
        has = True
    elif spec.get("kind") == "multi":
        has = any(s["_meta"]["nrows"] for s in spec["sections"])
    else:
        has = spec["_meta"]["nrows"] > 0
    return has and optional_components(spec) >= 2


def scramble_group_by(rng, spec):
    """make group_by keys non-contiguous by swapping two rows of different groups"""
    gb = spec["body"].get("group_by")
    cols = spec["df"]["cols"]
    n = len(cols[0]["values"])
    if not gb or n < 3:
        return False
    for _ in range(10):
        i, j = rng.sample(range(n), 2)
        for c in cols:
            c["values"][i], c["values"][j] = c["values"][j], c["values"][i]
    return True


def groupby_contiguous(spec):
    body = spec["body"]
    gb = body.get("group_by")
    if not gb:
        return True
    cols = {c["name"]: c["values"] for c in spec["df"]["cols"]}
    rows = list(zip(*[cols[g] for g in gb]))
    return E.prefix_contiguous(rows)


def check_output(ctx, spec, out, case):
    doc = R.parse(out)
    ctx.count("docs_parsed")
    ctx.count("pages_parsed", len(doc.pages))
    nrows = sum(1 for _ in doc.rows())
    ctx.count("rows_parsed", nrows)
    ctx.count("cells_parsed", sum(len(r.cells) for r in doc.rows()))
    ctx.count("u_escapes_seen", len(doc.u_params))
    for u in doc.unknown:
        ctx.distinct("unknown_control_words", u[0])
    if doc.errors:
        ctx.violation("output is not well-formed RTF: " + str(doc.errors[:3]), case,
                      {"errors": [list(map(str, e)) for e in doc.errors[:8]]})
    rw = R.row_wellformed_errors(doc)
    if rw:
        ctx.violation("table row clause broken: " + str(rw[:2]), case, {"rows": [list(map(str, e)) for e in rw[:8]]})
    return doc


def run_spec(ctx, spec, hook):
    case = strip_meta(spec)
    o = H.build_and_encode(spec)
    if o.stage == "build":
        ctx.count("rejected_at_construction")
        ctx.distinct("construction_rejections", type(o.exc).__name__ + ":" + str(o.exc)[:60])
        return
    ctx.case(case, nontrivial(spec))
    ctx.sample({"kind": spec.get("kind"), "spec": case}, limit=2)
    kind = spec.get("kind", "table")
    ctx.count("kind_" + kind)
    if o.stage == "encode":
        info = H.exc_info(o.exc)
        if kind == "table" and not groupby_contiguous(spec) and isinstance(o.exc, ValueError) \
                and type(o.exc).__name__ == "ValueError":
            ctx.count("noncontiguous_group_by_refused")
            return
        ctx.violation(f"rtf_encode raised {info['exc']}: {info['msg'][:120]} @ {info['where']}", case, info)
        return
    if kind == "table" and not groupby_contiguous(spec):
        ctx.count("noncontiguous_group_by_rendered(C13 clause)")
    check_output(ctx, spec, o.out, case)
    if hook.bad:
        ctx.violation("Row._as_rtf emitted unequal numbers of cell definitions and contents", case,
                      {"bad": hook.bad})
        hook.bad.clear()


UNI = ["\u00e9", "\u00b1", "\u00a0", "\u00ff", "\u0100", "\u03b1\u03b2", "\u2265", "\u4e2d\u6587", "\u7fff", "\u8000",
       "\uffff", "\U00010000", "\U0001F600", "\U0010FFFF", "\u20ac 5", "na\u00efve"]


RANGES = [(0xA1, 0xFF), (0x100, 0x24F), (0x370, 0x3FF), (0x2000, 0x206F), (0x2100, 0x214F), (0x3000, 0x30FF),
          (0x4E00, 0x4FFF), (0xFE50, 0xFE6B), (0xFF01, 0xFF5E), (0xFFE0, 0xFFE6), (0x1F300, 0x1F64F),
          (0x20000, 0x2007F), (0xE000, 0xE0FF)]


def uni_snippet(rng):
    """a fixed boundary string or 1..3 random characters from blocks that matter for escaping (Latin-1,
    general punctuation, letterlike, CJK, the small-form and fullwidth variants of ASCII punctuation
    - whose compatibility forms are RTF metacharacters -, emoji, supplementary planes, private use)"""
    if rng.random() < 0.4:
        return rng.choice(UNI)
    out = []
    for _ in range(rng.randint(1, 3)):
        lo, hi = rng.choice(RANGES)
        out.append(chr(rng.randint(lo, hi)))
    return "".join(out)


def sprinkle_unicode(rng, spec):
    """non-ASCII text in cells and text components (exercises the \\u escaper)"""
    grouping = set(spec["body"].get("page_by") or []) | set(spec["body"].get("subline_by") or []) | \
        set(spec["body"].get("group_by") or [])
    for j, col in enumerate(spec["df"]["cols"]):
        if col["dtype"] == "str" and col["name"] not in grouping and j != spec["_meta"]["key"]:
            col["values"] = [v if v is None or rng.random() < 0.5 else v + uni_snippet(rng) for v in col["values"]]
    for key in ("title", "subline", "footnote", "source", "page_footer"):
        c = spec.get(key)
        if isinstance(c, dict) and rng.random() < 0.5:
            t = c["text"]
            if isinstance(t, list):
                c["text"] = [x + " " + uni_snippet(rng) for x in t]
            else:
                c["text"] = t + " " + uni_snippet(rng)


def gen_random(rng):
    k = rng.random()
    if k < 0.72:
        spec = G.gen_table_spec(
            rng, nrows=rng.choice([(0, 3), (0, 12), (5, 40)]), ncols=(1, 8),
            nrow=rng.choice([None, None, rng.randint(1, 50), rng.randint(2, 12)]),
            half_points=rng.random() < 0.35, group_by=rng.random() < 0.25,
            as_colheader_false=0.08, attrs_p=rng.choice([0.0, 0.15, 0.5]),
            convert=rng.random() < 0.8, long_p=rng.choice([0, 0, 0.05, 0.2]))
        if spec["body"].get("group_by") and rng.random() < 0.3:
            scramble_group_by(rng, spec)
        if rng.random() < 0.12:
            # every value the documentation / validators name for the row alignment
            spec["body"]["cell_justification"] = rng.choice(["l", "c", "r", "j", "d", ""])
        if rng.random() < 0.1:
            spec["body"]["cell_vertical_justification"] = rng.choice(["top", "center", "bottom", "merge_first",
                                                                      "merge_rest", ""])
        b = spec["body"]
        if b.get("subline_by") and not b.get("page_by") and rng.random() < 0.3:
            # the same column(s) in two roles
            b["page_by"] = list(b["subline_by"])
        elif b.get("page_by") and not b.get("group_by") and rng.random() < 0.1:
            b["group_by"] = list(b["page_by"][:1])
        if rng.random() < 0.08:
            # extreme but legal numbers
            q = rng.random()
            if q < 0.3:
                spec.setdefault("page", {})["nrow"] = rng.choice([1, 2, 1000, 100000])
            elif q < 0.5:
                b["text_font_size"] = rng.choice([0.5, 1, 2, 120, 400])
            elif q < 0.7:
                # (the ends of C08's range; a ratio like 1000:1 would legitimately round a column to zero width)
                b["col_rel_width"] = [rng.choice([0.2, 1, 10]) for _ in spec["df"]["cols"]]
            elif q < 0.85:
                b["border_width"] = rng.choice([1, 255, 1000])
            else:
                b["text_space_before"] = rng.choice([0, 5000, 32000])
                b["text_indent_left"] = rng.choice([0, 9000, 31000])
        if rng.random() < 0.12:
            # column names are not always identifiers: blanks, punctuation, non-ASCII, numbers, keywords, the
            # empty string, names that differ by case only (all without RTF metacharacters)
            pool = ["Treatment Arm", "n (%)", "95% CI", "p-value", "2024", "0", "", " ", "text", "df", "None",
                    "Alter (Jahre)", "caf" + chr(0xE9), chr(0x3B1) + "-level", "x^2", "a_b", ">=65", "\\alpha",
                    "Very long column name " * 6, "N", "n", "col.1", "a/b", "#", "%"]
            rng.shuffle(pool)
            ren = {}
            for c in spec["df"]["cols"]:
                if rng.random() < 0.5 and pool:
                    ren[c["name"]] = pool.pop()
                    c["name"] = ren[c["name"]]
            for k2 in ("page_by", "subline_by", "group_by"):
                if isinstance(b.get(k2), list):
                    b[k2] = [ren.get(x, x) for x in b[k2]]
        keys_ = [x for k2 in ("page_by", "subline_by", "group_by") for x in (b.get(k2) or [])
                 if isinstance(b.get(k2), list)]
        if keys_ and rng.random() < 0.12:
            # a grouping column of Float dtype with NaN, the infinities and -0.0 among its values
            kc = rng.choice(keys_)
            for c in spec["df"]["cols"]:
                if c["name"] == kc and c["dtype"] == "str":
                    G.float_keys(rng, c)
        if rng.random() < 0.3:
            sprinkle_unicode(rng, spec)
        if rng.random() < 0.2:
            G.with_prior(rng, spec)
        if rng.random() < 0.1:
            # "no text" given as an empty list / empty string / list of one empty string
            for key in ("title", "subline", "footnote", "source", "page_header", "page_footer"):
                if rng.random() < 0.3:
                    spec[key] = {"text": rng.choice([[], "", [""]])}
                    if key in ("footnote", "source") and rng.random() < 0.5:
                        spec[key]["as_table"] = rng.random() < 0.5
        return spec
    if k < 0.86:
        return G.gen_multi_spec(rng, half_points=rng.random() < 0.3,
                                nrow=rng.choice([None, rng.randint(2, 30)]))
    return G.gen_figure_spec(rng, half_points=rng.random() < 0.3)


def gen_product(rng, reps):
    for hm, st, fn, sr in itertools.product(HEADERS, STRATEGIES, TBL, TBL):
        for _ in range(reps):
            spec = G.gen_table_spec(
                rng, nrows=(1, 9), ncols=(1, 4), strategy=st,
                header=(None if hm != "as_colheader_false" else "default") if hm == "as_colheader_false" else hm,
                nrow=rng.choice([None, rng.randint(2, 8)]), footnote=fn is not None, source=sr is not None,
                attrs_p=0.1)
            if hm == "as_colheader_false":
                spec["body"]["as_colheader"] = False
            if fn is not None:
                spec["footnote"]["as_table"] = fn
            if sr is not None:
                spec["source"]["as_table"] = sr
            yield spec


def run_repo_tests(ctx):
    import json
    import os
    import subprocess
    import sys
    import tempfile
    from ..run import HERE, REPO
    out = tempfile.mktemp(prefix="rtfmon-plugin-", suffix=".json")
    env = dict(os.environ, RTFMON_PLUGIN_OUT=out,
               PYTHONPATH=HERE + os.pathsep + os.path.join(REPO, "src"))
    p = subprocess.run([sys.executable, "-m", "pytest", "-q", "-p", "no:cacheprovider", "-p", "rtfmon.pytest_plugin",
                        "-x", "tests"], cwd=REPO, env=env, stdout=subprocess.PIPE, stderr=subprocess.STDOUT,
                       timeout=1000)
    if not os.path.exists(out):
        ctx.notes.append("repo test workload produced no observations: " + p.stdout.decode()[-300:])
        ctx.count("repo_tests_workload_unavailable")
        return
    d = json.load(open(out))
    os.remove(out)
    ctx.count("repo_tests_documents_read_back", d["parsed"])
    ctx.count("repo_tests_documents_in_quantifier", d["in_quantifier"])
    ctx.count("repo_tests_rows_parsed", d["rows"])
    ctx.count("repo_tests_with_encodes", d["tests_with_encodes"])
    ctx.count("docs_parsed", d["parsed"])
    ctx.count("rows_parsed", d["rows"])
    for v in d["violations"]:
        ctx.case(("repo-test", v["test"]), True)
        ctx.violation(f"document encoded by repository test {v['test']} is malformed: {v['problems'][:2]}",
                      {"repo_test": v["test"]}, {"problems": v["problems"]})
    for e in d["errors"]:
        ctx.notes.append("plugin monitor error: " + e)


def run_shard(desc, ctx):
    if desc["kind"] == "repo_tests":
        run_repo_tests(ctx)
        return
    rng = random.Random(desc["seed"])
    hook = H.RowHook().install()
    try:
        if desc["kind"] == "random":
            for _ in range(desc["n"]):
                run_spec(ctx, gen_random(rng), hook)
        else:
            for spec in gen_product(rng, desc["reps"]):
                ctx.count("product_cases")
                run_spec(ctx, spec, hook)
    finally:
        ctx.count("row_hook_calls", hook.calls)
        hook.uninstall()


def replay(data, ctx):
    hook = H.RowHook().install()
    spec = data["case"]
    # replays store the meta-stripped spec; restore what nontrivial() needs
    if spec.get("kind", "table") == "table":
        spec.setdefault("_meta", {"nrows": len(spec["df"]["cols"][0]["values"])})
    elif spec.get("kind") == "multi":
        for s in spec["sections"]:
            s.setdefault("_meta", {"nrows": len(s["df"]["cols"][0]["values"])})
    run_spec(ctx, spec, hook)
    hook.uninstall()
