"""Independent RTF reader used as the observation boundary of every output oracle.

Written from the RTF 1.9 grammar; shares no code with rtflite.  It turns the
string returned by ``rtf_encode()`` (or the bytes written by ``write_rtf``)
into  pages -> blocks (paragraph | table row | picture) -> cells -> runs with
their character / paragraph / cell properties, and records every structural
or lexical problem in ``Doc.errors`` instead of raising.
"""
from __future__ import annotations

import re
from dataclasses import dataclass, field

CW_RE = re.compile(r"\\([a-zA-Z]+)(-?\d+)?( ?)")
DEFINED_SYMBOLS = set("\\{}~-_:|*'\n\r")

# control words that are meaningless without a numeric parameter
NEED_PARAM = {
    "cellx", "fs", "f", "cf", "cb", "chcbpat", "u", "uc", "paperw", "paperh",
    "margl", "margr", "margt", "margb", "headery", "footery", "picw", "pich",
    "picwgoal", "pichgoal", "red", "green", "blue", "sb", "sa", "fi", "li", "ri",
    "trgaph", "trleft", "brdrw", "brdrcf", "fcharset", "deff", "deflang", "rtf",
    "sl", "slmult", "fprq",
}

BORDER_STYLES = {
    "brdrs", "brdrdb", "brdrth", "brdrdot", "brdrdash", "brdrdashsm", "brdrdashd",
    "brdrdashdd", "brdrtriple", "brdrwavy", "brdrwavydb", "brdrengrave",
    "brdremboss", "brdrframe", "brdrnone", "brdrhair",
}
CHAR_TOGGLES = {"b", "i", "ul", "strike"}
PARA_JUST = {"ql", "qc", "qr", "qj", "qd"}
KNOWN_MISC = {
    "rtf", "ansi", "ansicpg", "deff", "deflang", "intbl", "fprq", "froman", "fswiss",
    "fmodern", "ftech", "fnil", "fscript", "fdecor", "fbidi", "fcharset", "field",
    "plain", "widowctrl", "viewkind", "lang", "sectd", "sect", "chshdng", "slmult",
    "nosupersub",
}


# \fcharsetN -> code page used by readers for \'hh and raw high bytes while that font is current
CHARSET_CP = {0: "cp1252", 77: "mac_roman", 128: "cp932", 129: "cp949", 134: "gbk", 136: "big5", 161: "cp1253",
              162: "cp1254", 163: "cp1258", 177: "cp1255", 178: "cp1256", 186: "cp1257", 204: "cp1251",
              222: "cp874", 238: "cp1250"}


def tokenize(s: str):
    """-> (tokens, lexical_errors).  token = (kind, a, b, pos);
    kinds: '{' '}' 'cw'(name,param) 'cs'(char) 'hex'(int) 'text'(str)."""
    toks = []
    errs = []
    i, n = 0, len(s)
    buf = []
    bstart = 0

    def flush():
        nonlocal buf
        if buf:
            toks.append(("text", "".join(buf), None, bstart))
            buf = []

    while i < n:
        c = s[i]
        if c == "{":
            flush(); toks.append(("{", None, None, i)); i += 1
        elif c == "}":
            flush(); toks.append(("}", None, None, i)); i += 1
        elif c == "\\":
            flush()
            if i + 1 >= n:
                errs.append(("dangling-backslash", i)); i += 1; continue
            d = s[i + 1]
            if d.isascii() and d.isalpha():
                m = CW_RE.match(s, i)
                name, param = m.group(1), m.group(2)
                if len(name) > 32:
                    errs.append(("name-too-long:" + name[:40], i))
                p = None
                if param is not None:
                    digits = param.lstrip("-")
                    if len(digits) > 10 or not (-2**31 <= int(param) < 2**31):
                        errs.append(("param-range:" + name, i))
                    p = int(param)
                elif name in NEED_PARAM:
                    errs.append(("missing-param:" + name, i))
                toks.append(("cw", name, p, i))
                i = m.end()
            elif d == "'":
                hx = s[i + 2:i + 4]
                if len(hx) == 2 and all(ch in "0123456789abcdefABCDEF" for ch in hx):
                    toks.append(("hex", int(hx, 16), None, i)); i += 4
                else:
                    errs.append(("bad-hex", i)); i += 2
            else:
                if d not in DEFINED_SYMBOLS:
                    errs.append(("undefined-symbol:" + repr(d), i))
                toks.append(("cs", d, None, i)); i += 2
        elif c in "\r\n":
            i += 1
        else:
            if not buf:
                bstart = i
            buf.append(c); i += 1
    flush()
    return toks, errs


@dataclass
class Run:
    text: str
    props: dict


@dataclass
class Para:
    runs: list
    pprops: dict
    kind: str = "para"

    @property
    def text(self):
        return "".join(r.text for r in self.runs)


@dataclass
class CellDef:
    right: int
    borders: dict
    valign: str | None


@dataclass
class Row:
    defs: list
    cells: list  # list[Para]
    rprops: dict
    kind: str = "row"

    @property
    def texts(self):
        return [c.text for c in self.cells]


@dataclass
class Pict:
    props: dict
    data: bytes
    pprops: dict
    kind: str = "pict"


@dataclass
class Page:
    blocks: list = field(default_factory=list)
    setup: dict = field(default_factory=dict)


@dataclass
class Doc:
    pages: list
    fonts: dict
    colors: list | None
    headers: list
    footers: list
    setup: dict
    errors: list
    unknown: list
    warnings: list = field(default_factory=list)
    ntoks: int = 0
    u_params: list = field(default_factory=list)

    def rows(self):
        for p in self.pages:
            for b in p.blocks:
                if b.kind == "row":
                    yield b


FIELD_PAGENUM = "\x00PAGENUM\x00"
FIELD_TOTALPAGE = "\x00TOTALPAGE\x00"
FIELD_NUMPAGES = "\x00NUMPAGES\x00"


def parse(src, codepage: str = "cp1252") -> Doc:
    """Parse an RTF document given as ``str`` (value of rtf_encode) or ``bytes``
    (file content).  For bytes, every byte >= 0x80 outside an escape is decoded
    on its own in the document's ANSI code page, as RTF readers do."""
    from_bytes = isinstance(src, (bytes, bytearray))
    s = src.decode("latin-1") if from_bytes else src

    def decode_byte(o: int) -> str:
        """one byte >= 0x80 in the code page of the CURRENT font (as Word / LibreOffice do):
        \\fcharset1 = document default, \\fcharset2 = Symbol (private-use area), else by table"""
        cs = None
        f = st.ch.get("f") if st is not None else None
        ent = fonts.get(f) if f is not None else None
        if ent is not None:
            for w, pv in ent["words"]:
                if w == "fcharset":
                    cs = pv
        if cs == 2:
            return chr(0xF000 + o)
        cp = codepage if cs in (None, 1) else CHARSET_CP.get(cs, codepage)
        try:
            return bytes([o]).decode(cp)
        except (UnicodeDecodeError, LookupError):
            return "\ufffd"

    def hi(txt: str) -> str:
        if not from_bytes:
            return txt
        if txt.isascii():
            return txt
        return "".join(ch if ord(ch) < 0x80 else decode_byte(ord(ch)) for ch in txt)

    toks, errs = tokenize(s)
    errors = list(errs)
    st = None
    fonts: dict = {}

    # ---- structure ----
    depth = 0
    closed = False
    for t in toks:
        k = t[0]
        if k == "{":
            if closed:
                errors.append(("content-after-close", t[3]))
            depth += 1
        elif k == "}":
            depth -= 1
            if depth < 0:
                errors.append(("unbalanced-close", t[3])); depth = 0
            elif depth == 0:
                if closed:
                    errors.append(("second-top-level-group", t[3]))
                closed = True
        else:
            if depth == 0:
                if not (k == "text" and not t[1].strip(" \t\x00")):
                    errors.append(("content-outside-group", t[3]))
    if depth != 0:
        errors.append(("unbalanced-open", depth))
    if not (len(toks) >= 2 and toks[0][0] == "{" and toks[1][:3] == ("cw", "rtf", 1)):
        errors.append(("no-signature", 0))
    if not s.startswith("{\\rtf1"):
        errors.append(("no-signature-prefix", 0))

    colors: list | None = None
    headers, footers = [], []
    doc_setup: dict = {}
    pages = [Page()]
    cur_setup = pages[0].setup
    unknown: list = []
    warnings: list = []
    u_params: list = []

    class St:
        __slots__ = ("ch", "dest", "uc")

    def newstate(parent=None):
        st = St()
        if parent is None:
            st.ch = {}
            st.dest = "body"; st.uc = 1
        else:
            st.ch = dict(parent.ch); st.dest = parent.dest; st.uc = parent.uc
        return st

    stack = []
    st = newstate()
    pp: dict = {}
    runs: list = []
    row_defs: list = []
    pending_def = {"borders": {}, "valign": None}
    cur_border = None
    row_cells: list = []
    rprops: dict = {}
    in_row = False
    sink_stack = []
    blocks = pages[-1].blocks
    color_cur: dict = {}
    font_cur = None
    pict = None
    uc_pending = 0

    def add_text(txt):
        d = st.dest
        if d in ("body", "header", "footer", "fldrslt"):
            runs.append(Run(txt, dict(st.ch)))
        elif d == "fldinst":
            if "NUMPAGES" in txt:
                runs.append(Run(FIELD_NUMPAGES, dict(st.ch)))
            elif txt.strip():
                runs.append(Run("\x00FIELD[" + txt.strip() + "]\x00", dict(st.ch)))
        elif d == "fonttbl_entry":
            fonts[font_cur]["name"] += txt
        elif d == "colortbl":
            for chh in txt:
                if chh == ";":
                    if color_cur:
                        colors.append((color_cur.get("red"), color_cur.get("green"),
                                       color_cur.get("blue")))
                    else:
                        colors.append(None)
                    color_cur.clear()
        elif d == "pict":
            pict["hex"].append(txt)

    def end_para():
        nonlocal runs
        p = Para(runs, dict(pp))
        runs = []
        return p

    i = 0
    N = len(toks)
    while i < N:
        kind, a, b, pos = toks[i]
        i += 1
        if uc_pending:
            if kind == "text":
                k = min(uc_pending, len(a))
                a = a[k:]; uc_pending -= k
                if not a:
                    continue
            elif kind in ("hex", "cs"):
                uc_pending -= 1
                continue
            elif kind == "cw":
                if a == "u":
                    errors.append(("u-fallback-missing", pos)); uc_pending = 0
                else:
                    # a control word counts as one fallback "character"
                    uc_pending -= 1
                    continue
            else:
                errors.append(("u-fallback-cut-by-group", pos)); uc_pending = 0
        if kind == "{":
            stack.append(st); st = newstate(st)
            continue
        if kind == "}":
            if st.dest == "pict" and (not stack or stack[-1].dest != "pict"):
                hx = "".join(pict["hex"]).replace(" ", "")
                try:
                    data = bytes.fromhex(hx)
                except ValueError:
                    errors.append(("bad-pict-hex", pos)); data = b""
                blocks.append(Pict(pict["props"], data, dict(pp)))
                pict = None
            if st.dest in ("header", "footer") and (
                    not stack or stack[-1].dest not in ("header", "footer")):
                if runs:
                    blocks.append(end_para())
                blocks, saved = sink_stack.pop()
                runs, pp = saved
            if st.dest == "colortbl" and (not stack or stack[-1].dest != "colortbl"):
                if color_cur:
                    errors.append(("colortbl-entry-unterminated", pos)); color_cur.clear()
            if stack:
                st = stack.pop()
            continue
        if kind == "text":
            add_text(hi(a)); continue
        if kind == "hex":
            add_text(chr(a) if a < 0x80 else decode_byte(a))
            continue
        if kind == "cs":
            if a == "*":
                if i < N and toks[i][0] == "cw":
                    nm = toks[i][1]
                    if nm == "fldinst":
                        st.dest = "fldinst"
                    else:
                        st.dest = "ignore"
                    i += 1
                continue
            if st.dest == "ignore":
                continue
            if a in "\\{}":
                add_text(a)
            elif a == "~":
                add_text("\u00a0")
            elif a == "_":
                add_text("\u2011")
            elif a == "-":
                add_text("\u00ad")
            continue
        # ---- control word ----
        name, param = a, b
        if name == "u":
            if param is None or not (-32768 <= param <= 32767):
                errors.append(("u-range", pos, param))
                u_params.append(param)
                continue
            u_params.append(param)
            cu = param + 65536 if param < 0 else param
            uc_pending = st.uc
            prev = runs[-1] if runs else None
            if (0xDC00 <= cu <= 0xDFFF and prev is not None and prev.text
                    and 0xD800 <= ord(prev.text[-1]) <= 0xDBFF
                    and st.dest in ("body", "header", "footer", "fldrslt")):
                hi_ = ord(prev.text[-1])
                prev.text = prev.text[:-1] + chr(
                    0x10000 + ((hi_ - 0xD800) << 10) + (cu - 0xDC00))
            else:
                add_text(chr(cu))
            continue
        if name == "uc":
            st.uc = param if param is not None else 1; continue
        if st.dest == "ignore":
            continue
        if name == "fonttbl":
            st.dest = "fonttbl"; continue
        if st.dest in ("fonttbl", "fonttbl_entry"):
            if name == "f":
                font_cur = param
                fonts[param] = {"name": "", "words": []}
                st.dest = "fonttbl_entry"
            elif font_cur is not None:
                fonts[font_cur]["words"].append((name, param))
            continue
        if name == "colortbl":
            st.dest = "colortbl"
            if colors is None:
                colors = []
            else:
                warnings.append(("second-colortbl", pos))
            continue
        if st.dest == "colortbl":
            if name in ("red", "green", "blue"):
                color_cur[name] = param
            continue
        if name in ("header", "footer"):
            st.dest = name
            new_blocks: list = []
            (headers if name == "header" else footers).append(new_blocks)
            sink_stack.append((blocks, (runs, pp)))
            blocks = new_blocks; runs = []; pp = {}
            continue
        if name == "field":
            continue
        if name == "fldrslt":
            st.dest = "fldrslt"; continue
        if name == "pict":
            st.dest = "pict"; pict = {"props": {}, "hex": []}; continue
        if st.dest == "pict":
            pict["props"][name] = param; continue
        if name in ("paperw", "paperh", "margl", "margr", "margt", "margb",
                    "headery", "footery"):
            if len(pages) == 1 and not pages[0].blocks and not runs:
                doc_setup[name] = param
            cur_setup[name] = param
            continue
        if name == "landscape":
            if len(pages) == 1 and not pages[0].blocks and not runs:
                doc_setup["landscape"] = True
            cur_setup["landscape"] = True
            continue
        if name == "page":
            if runs:
                blocks.append(end_para())
            pages.append(Page()); blocks = pages[-1].blocks; cur_setup = pages[-1].setup
            continue
        if name == "pard":
            pp = {}; continue
        if name == "plain":
            st.ch = {}; continue
        if name == "par":
            blocks.append(end_para()); continue
        if name == "line":
            add_text("\n"); continue
        if name == "tab":
            add_text("\t"); continue
        if name == "trowd":
            if any(r.text.strip() for r in runs):
                errors.append(("stray-text-before-row", pos))
            row_defs = []; row_cells = []; rprops = {}; in_row = True
            pending_def = {"borders": {}, "valign": None}; cur_border = None
            continue
        if name in ("trgaph", "trleft"):
            rprops[name] = param; continue
        if name in ("trql", "trqc", "trqr"):
            rprops["just"] = name; continue
        if name in ("clbrdrl", "clbrdrt", "clbrdrr", "clbrdrb"):
            cur_border = name[-1]
            pending_def["borders"][cur_border] = {"style": None, "w": None, "cf": None}
            continue
        if name in BORDER_STYLES:
            if cur_border:
                pending_def["borders"][cur_border]["style"] = name
            continue
        if name == "brdrw":
            if cur_border:
                pending_def["borders"][cur_border]["w"] = param
            continue
        if name == "brdrcf":
            if cur_border:
                pending_def["borders"][cur_border]["cf"] = param
            continue
        if name in ("clvertalt", "clvertalc", "clvertalb", "clvmgf", "clvmrg"):
            pending_def["valign"] = (pending_def["valign"] or "") + name; continue
        if name == "cellx":
            row_defs.append(CellDef(param, pending_def["borders"], pending_def["valign"]))
            pending_def = {"borders": {}, "valign": None}; cur_border = None
            continue
        if name == "cell":
            row_cells.append(end_para()); continue
        if name == "row":
            if not in_row:
                errors.append(("row-without-trowd", pos))
            if any(r.text.strip() for r in runs):
                errors.append(("text-after-last-cell", pos))
                runs = []
            blocks.append(Row(row_defs, row_cells, rprops))
            row_defs = []; row_cells = []; in_row = False
            continue
        if name in ("f", "fs", "cf", "cb", "chcbpat"):
            st.ch[name] = param; continue
        if name in CHAR_TOGGLES:
            st.ch[name] = (param != 0) if param is not None else True; continue
        if name == "super":
            st.ch["script"] = "super" if param != 0 else None; continue
        if name == "sub":
            st.ch["script"] = "sub" if param != 0 else None; continue
        if name == "nosupersub":
            st.ch["script"] = None; continue
        if name in PARA_JUST:
            pp["just"] = name; continue
        if name in ("fi", "li", "ri", "sb", "sa", "sl", "slmult"):
            pp[name] = param; continue
        if name == "hyphpar":
            pp["hyphpar"] = 1 if param is None else param; continue
        if name == "chpgn":
            add_text(FIELD_PAGENUM); continue
        if name == "totalpage":
            add_text(FIELD_TOTALPAGE); continue
        if name in KNOWN_MISC:
            continue
        unknown.append((name, param, pos))
    if any(r.text.strip() for r in runs):
        errors.append(("dangling-text", None, "".join(r.text for r in runs)[:40]))
    if in_row or row_cells or row_defs:
        errors.append(("unterminated-row", None))
    return Doc(pages, fonts, colors, headers, footers, doc_setup, errors, unknown,
               warnings, len(toks), u_params)


# --------------------------------------------------------------------------
# helpers shared by oracles
# --------------------------------------------------------------------------

def is_spacer(b) -> bool:
    """The tiny empty paragraphs rtflite puts around a page break."""
    return b.kind == "para" and not b.text.strip() and not b.text


def content_blocks(page: Page):
    return [b for b in page.blocks if not is_spacer(b)]


def row_wellformed_errors(doc: Doc):
    """Row-level C01 clauses: #cellx == #cell >= 1, boundaries > 0, non-decreasing."""
    out = []
    for pi, p in enumerate(doc.pages):
        for bi, b in enumerate(p.blocks):
            if b.kind != "row":
                continue
            nd, nc = len(b.defs), len(b.cells)
            if nd != nc or nd < 1:
                out.append(("cell-count", pi, bi, nd, nc))
            xs = [d.right for d in b.defs]
            if any(x is None or x <= 0 for x in xs):
                out.append(("nonpositive-boundary", pi, bi, xs))
            elif any(xs[k] > xs[k + 1] for k in range(len(xs) - 1)):
                out.append(("decreasing-boundary", pi, bi, xs))
    hdrs = [b for h in doc.headers + doc.footers for b in h if b.kind == "row"]
    for b in hdrs:
        if len(b.defs) != len(b.cells) or not b.defs:
            out.append(("cell-count-in-header", len(b.defs), len(b.cells)))
    return out


if __name__ == "__main__":
    import sys
    raw = open(sys.argv[1], "rb").read()
    d = parse(raw if "--bytes" in sys.argv else raw.decode("utf-8"))
    print("errors:", d.errors, "unknown:", sorted({u[0] for u in d.unknown}))
    print("colors:", d.colors and len(d.colors), "fonts:", len(d.fonts))
    for pi, p in enumerate(d.pages):
        print("PAGE", pi, p.setup)
        for b in p.blocks:
            if b.kind == "row":
                print("  ROW", [c.right for c in b.defs], b.texts)
            elif b.kind == "para":
                print("  PARA", repr(b.text))
            else:
                print("  PICT", b.props, len(b.data))
