"""C19 - invalid configuration is rejected up front with ValueError.

Monitor at the constructor boundary: every call records the exception class
(or the object returned).  isinstance(exc, ValueError) (pydantic's
ValidationError is one) or FileNotFoundError for a missing figure file is the
only accepted outcome for the invalidity classes the statement lists.
"""
from __future__ import annotations

import os
import random
import tempfile

from .. import gen as G

PID = "C19"
LEVEL = "exploration"
RULE = ("for every validated field of RTFPage, RTFBody, RTFColumnHeader, RTFFootnote, RTFSource, "
        "RTFTitle, RTFSubline, RTFPageHeader, RTFPageFooter, RTFFigure and RTFDocument: a valid base "
        "call in which one field is replaced by a scalar / flat list / nested list holding ONE invalid "
        "value (unknown keyword, 0 or negative number) at a random position among valid values; plus the "
        "structural cases (margin length, missing columns, new_page without page_by, df+figure, neither, "
        "multi-section length mismatches, missing figure file). non-trivial = the invalid value sits in a "
        "container of >=2 elements or the case is structural; distinct by hash of (class, field, value)")
ASSUMPTIONS = ["only the invalidity classes listed in the property statement are generated",
               "attribute shapes are those the field annotations admit (scalar, flat list, list of lists)"]
DECIDING = ["constructor_calls", "rejections_observed", "valid_base_accepted"]
FLOOR = {"quick": 16000, "thorough": 250000}

TEXT_CLASSES = ["RTFTitle", "RTFSubline", "RTFPageHeader", "RTFPageFooter"]
TABLE_CLASSES = ["RTFBody", "RTFColumnHeader", "RTFFootnote", "RTFSource"]

BAD_STR = {
    "text_color": ["notacolor", "Red", "#ff0000", "grey101", "blu", " red"],
    "text_background_color": ["notacolor", "Blue", "rgb(1,2,3)", "gray-50"],
    "text_format": ["x", "bz", "B", "bold", "b,i", "ib?"],
    "text_justification": ["x", "left", "L", "cc", "center"],
    "border": ["solid", "Single", "none", "doubled", "dash", "1"],
    "border_color": ["notacolor", "Green", "transparent"],
    "cell_justification": ["x", "left", "C", "centre"],
    "cell_vertical_justification": ["middle", "Top", "centre", "t"],
}
# a legal keyword decorated with white space is NOT in the legal set either (regex '$' and str.strip()
# are classic ways to let "b\n" or " red" through)
VALID_TOKEN = {"text_color": "red", "text_background_color": "blue", "text_format": "b", "text_justification": "l",
               "border": "single", "border_color": "red", "cell_justification": "c",
               "cell_vertical_justification": "top"}
for _k, _v in VALID_TOKEN.items():
    BAD_STR[_k] = BAD_STR[_k] + [_v + "\n", _v + " ", " " + _v, _v + "\t", "\n" + _v, _v + "\r\n"]
BAD_FONT = [0, 11, -1, 99, 12]
BAD_NONPOS_INT = [0, -1, -15]
BAD_NONPOS_FLOAT = [0, 0.0, -0.5, -1, -2.25]


def table_fields():
    f = []
    f += [("text_font", "font"), ("text_format", "text_format"), ("text_font_size", "nonpos_float"),
          ("text_color", "text_color"), ("text_background_color", "text_background_color"),
          ("text_justification", "text_justification")]
    for side in ("left", "right", "top", "bottom", "first", "last"):
        f.append((f"border_{side}", "border"))
        f.append((f"border_color_{side}", "border_color"))
    f += [("col_rel_width", "nonpos_float_flat"), ("border_width", "nonpos_int"),
          ("cell_height", "nonpos_float"), ("cell_justification", "cell_justification"),
          ("cell_vertical_justification", "cell_vertical_justification")]
    return f


TEXT_FIELDS = [("text_font", "font"), ("text_format", "text_format"), ("text_font_size", "nonpos_float"),
               ("text_color", "text_color"), ("text_background_color", "text_background_color"),
               ("text_justification", "text_justification")]


def bad_value(rng, kind):
    if kind == "font":
        return rng.choice(BAD_FONT)
    if kind in ("nonpos_float", "nonpos_float_flat"):
        return rng.choice(BAD_NONPOS_FLOAT)
    if kind == "nonpos_int":
        return rng.choice(BAD_NONPOS_INT)
    return rng.choice(BAD_STR[kind])


def good_value(rng, field):
    if field.startswith("border_color_"):
        return rng.choice(G.colors()[:50] + [""])
    if field == "col_rel_width":
        return rng.choice([1, 2, 0.5, 3.25])
    if field == "cell_justification":
        return rng.choice(["l", "c", "r"])
    return G.scalar_attr(rng, field)


def container(rng, field, kind, shapes):
    """-> (value, n_elements, description) with exactly one invalid element"""
    shape = rng.choice(shapes)
    bad = bad_value(rng, kind)
    if shape == "scalar":
        return bad, 1, {"shape": "scalar", "bad": bad}
    big = rng.random() < 0.06       # sizes beyond any block / chunk / sample a validator might use
    if shape == "flat":
        n = rng.randint(1, 5) if not big else rng.choice([64, 65, 256, 257, 300])
        pos = rng.randrange(n) if not big else rng.choice([n - 1, n - 2, rng.randrange(n), min(n - 1, 63), min(n - 1, 255)])
        v = [good_value(rng, field) for _ in range(n)]
        v[pos] = bad
        return v, n, {"shape": f"flat[{n}]", "pos": pos, "bad": bad}
    r, c = rng.randint(1, 4), rng.randint(1, 4)
    if big:
        r = rng.choice([64, 65, 128, 255, 256, 257, 300, 512, 513, 1024, 1025])
    pr, pc = rng.randrange(r), rng.randrange(c)
    if big:
        pr = rng.choice([r - 1, r - 2, rng.randrange(r), min(r - 1, 63), min(r - 1, 127), min(r - 1, 255),
                         min(r - 1, 256), min(r - 1, 511), min(r - 1, 1023)])
    v = [[good_value(rng, field) for _ in range(c)] for _ in range(r)]
    v[pr][pc] = bad
    return v, r * c, {"shape": f"nested[{r}x{c}]", "pos": [pr, pc], "bad": bad}


def base_kwargs(rng, cls):
    if cls in TEXT_CLASSES:
        return {"text": rng.choice(["TT0", ["TT0", "TT1"]])}
    if cls in ("RTFFootnote", "RTFSource"):
        kw = {"text": "FN0"}
        if rng.random() < 0.5:
            kw["as_table"] = rng.random() < 0.5
        return kw
    if cls == "RTFColumnHeader":
        return {"text": ["H0c0", "H0c1"]} if rng.random() < 0.7 else {}
    if cls == "RTFBody":
        kw = {}
        if rng.random() < 0.3:
            kw["page_by"] = ["N0"]
        return kw
    return {}


def gen_attr_case(rng):
    if rng.random() < 0.35:
        cls = rng.choice(TEXT_CLASSES)
        field, kind = rng.choice(TEXT_FIELDS)
        shapes = ["scalar", "flat", "nested"]
    else:
        cls = rng.choice(TABLE_CLASSES)
        field, kind = rng.choice(table_fields())
        shapes = ["scalar", "flat"] if kind == "nonpos_float_flat" else ["scalar", "flat", "nested"]
    kw = base_kwargs(rng, cls)
    val, n, desc = container(rng, field, kind, shapes)
    kw[field] = val
    desc.update({"cls": cls, "field": field})
    return {"cls": cls, "kw": kw, "desc": desc, "n": n, "expect": "ValueError"}


def gen_page_case(rng):
    r = rng.random()
    kw = {}
    if rng.random() < 0.5:
        kw["orientation"] = rng.choice(["portrait", "landscape"])
    if r < 0.15:
        field, val = "orientation", rng.choice(["diagonal", "Portrait", "", "horizontal", "portrait\n", " landscape"])
    elif r < 0.4:
        field = rng.choice(["page_title", "page_footnote", "page_source"])
        val = rng.choice(["middle", "First", "none", "every", "", "all\n", " first", "last "])
    elif r < 0.6:
        field = rng.choice(["border_first", "border_last"])
        val = rng.choice(BAD_STR["border"])
    elif r < 0.9:
        field = rng.choice(["width", "height", "nrow", "col_width"])
        val = rng.choice(BAD_NONPOS_INT if field == "nrow" else BAD_NONPOS_FLOAT)
    else:
        field = "margin"
        n = rng.choice([0, 1, 3, 5, 7, 8])
        val = [1.0] * n
        if n == 0:
            # an empty list is "falsy": statement says length != 6 must be rejected
            val = []
    kw[field] = val
    return {"cls": "RTFPage", "kw": kw, "desc": {"cls": "RTFPage", "field": field, "bad": val},
            "n": 2, "expect": "ValueError"}


def gen_body_case(rng):
    if rng.random() < 0.5:
        kw = {"pageby_row": rng.choice(["row", "Column", "first", "", "column\n", " first_row"])}
        if rng.random() < 0.5:
            kw["page_by"] = ["N0"]
        d = {"cls": "RTFBody", "field": "pageby_row", "bad": kw["pageby_row"]}
    else:
        kw = {"new_page": True}
        if rng.random() < 0.5:
            kw["group_by"] = ["N0"]
        if rng.random() < 0.3:
            kw["subline_by"] = ["N1"]
        d = {"cls": "RTFBody", "field": "new_page", "bad": "new_page without page_by"}
    return {"cls": "RTFBody", "kw": kw, "desc": d, "n": 2, "expect": "ValueError"}


def gen_figure_case(rng):
    r = rng.random()
    if r < 0.35:
        return {"cls": "RTFFigure", "kw": {"figures": "@FIG", "fig_align": rng.choice(["middle", "Center", "justify", "", "center\n", " left"])},
                "desc": {"cls": "RTFFigure", "field": "fig_align"}, "n": 2, "expect": "ValueError"}
    if r < 0.7:
        return {"cls": "RTFFigure", "kw": {"figures": "@FIG", "fig_pos": rng.choice(["above", "Before", "below", "", "after\n", " before"])},
                "desc": {"cls": "RTFFigure", "field": "fig_pos"}, "n": 2, "expect": "ValueError"}
    k = rng.randint(1, 3)
    figs = ["@FIG"] * k
    figs[rng.randrange(k)] = rng.choice(["@MISSING", "@MISSING", "@THROUGH_MISSING_DIR"])
    return {"cls": "RTFFigure", "kw": {"figures": figs if k > 1 or rng.random() < 0.5 else figs[0]},
            "desc": {"cls": "RTFFigure", "field": "figures", "bad": "missing file"}, "n": 2,
            "expect": "FileNotFoundError"}


def gen_document_case(rng):
    r = rng.random()
    d = {"cls": "RTFDocument"}
    if r < 0.45:
        which = rng.choice(["group_by", "page_by", "subline_by"])
        cols = ["N0", "N1", "N2", "N3"][:rng.choice([1, 2, 2, 3, 4])]
        cols[rng.choice([len(cols) - 1, rng.randrange(len(cols))])] = rng.choice(["missing", "n0", "N9", ""])
        # the column names as a list, a tuple or (one name) a bare string; sometimes next to another, valid,
        # grouping option
        form = rng.choice(["list", "list", "tuple", "tuple", "str"])
        body = {which: cols}
        other = rng.choice([k for k in ("group_by", "page_by", "subline_by") if k != which])
        if rng.random() < 0.3:
            body[other] = ["N4"]
        d.update(field=which, bad=cols, form=form)
        return {"cls": "RTFDocument", "doc": {"df": rng.choice([0, 1, 3, 3]), "body": body, "form": form}, "desc": d, "n": 2,
                "expect": "ValueError"}
    if r < 0.53:
        # multi-section: the name is missing from ONE section's frame only (any position); the sections use
        # separate bodies, or one body object for all of them (rtf_body=[b, b, b])
        nd = rng.randint(2, 4)
        which = rng.choice(["group_by", "page_by", "subline_by"])
        k = rng.choice([nd - 1, rng.randrange(nd)])
        shared = rng.random() < 0.6
        d.update(field=which, bad={"sections": nd, "missing_in": k, "shared_body": shared})
        return {"cls": "RTFDocument", "doc": {"msec": {"n": nd, "k": k, "which": which, "shared": shared,
                                                       "form": rng.choice(["list", "tuple", "str"])}},
                "desc": d, "n": 2, "expect": "ValueError"}
    if r < 0.58:
        d.update(field="df+figure")
        return {"cls": "RTFDocument", "doc": {"df": 2, "figure": True}, "desc": d, "n": 2, "expect": "ValueError"}
    if r < 0.66:
        d.update(field="neither df nor figure")
        return {"cls": "RTFDocument", "doc": {}, "desc": d, "n": 2, "expect": "ValueError"}
    if r < 0.85:
        nd = rng.randint(1, 4)
        nb = rng.choice([x for x in [0, 1, 2, 3, 4, 5] if x != nd] + ["single"])
        d.update(field="multi-section body list", bad={"dfs": nd, "bodies": nb})
        return {"cls": "RTFDocument", "doc": {"dfs": nd, "bodies": nb}, "desc": d, "n": 2, "expect": "ValueError"}
    nd = rng.randint(2, 4)
    nh = rng.choice([x for x in [1, 2, 3, 4, 5] if x != nd])
    d.update(field="nested header list", bad={"dfs": nd, "headers": nh})
    return {"cls": "RTFDocument", "doc": {"dfs": nd, "bodies": nd, "nested_headers": nh}, "desc": d, "n": 2,
            "expect": "ValueError"}


def construct(case, figpath):
    import polars as pl
    import rtflite as rtf
    cls = case["cls"]
    if cls == "RTFDocument":
        dd = case["doc"]
        kw = {}

        def df(n=3):
            return pl.DataFrame({"N0": ["a"] * n, "N1": ["b"] * n, "N2": ["c"] * n, "N3": ["d"] * n,
                                 "N4": list(range(n))})
        if "df" in dd:
            kw["df"] = df(dd["df"])
        if "body" in dd:
            bkw = dict(dd["body"])
            for k, v in list(bkw.items()):
                if isinstance(v, list) and dd.get("form") == "tuple":
                    bkw[k] = tuple(v)
                elif isinstance(v, list) and dd.get("form") == "str" and len(v) == 1:
                    bkw[k] = v[0]
            kw["rtf_body"] = rtf.RTFBody(**bkw)
        if dd.get("figure"):
            kw["rtf_figure"] = rtf.RTFFigure(figures=figpath)
        if "msec" in dd:
            m = dd["msec"]
            kw["df"] = [df().drop("N1") if i == m["k"] else df() for i in range(m["n"])]
            name = {"list": ["N1"], "tuple": ("N1",), "str": "N1"}[m["form"]]
            if m["shared"]:
                b = rtf.RTFBody(**{m["which"]: name})
                kw["rtf_body"] = [b] * m["n"]
            else:
                kw["rtf_body"] = [rtf.RTFBody(**{m["which"]: name}) if i == m["k"] or i % 2 == 0 else rtf.RTFBody()
                                  for i in range(m["n"])]
        if "dfs" in dd:
            kw["df"] = [df() for _ in range(dd["dfs"])]
            nb = dd["bodies"]
            kw["rtf_body"] = rtf.RTFBody() if nb == "single" else [rtf.RTFBody() for _ in range(nb)]
            if "nested_headers" in dd:
                kw["rtf_column_header"] = [[rtf.RTFColumnHeader(text=["a", "b", "c"])]
                                           for _ in range(dd["nested_headers"])]
        return rtf.RTFDocument(**kw)
    kw = dict(case["kw"])
    if cls == "RTFFigure":
        f = kw.get("figures")
        rep = {"@FIG": figpath, "@MISSING": figpath + ".does-not-exist.png",
               # an existing file named through a directory that does not exist ("plots/drafts/../fig.png"): the OS
               # cannot open that path
               "@THROUGH_MISSING_DIR": os.path.join(os.path.dirname(figpath), "no-such-dir", "..",
                                                    os.path.basename(figpath))}
        kw["figures"] = [rep.get(x, x) for x in f] if isinstance(f, list) else rep.get(f, f)
    return getattr(rtf, cls)(**kw)


def valid_twin(rng, case):
    """the same call with the invalid value replaced by a valid one must be accepted
    (guards against a generator whose 'valid' surroundings are themselves invalid)"""
    if case["cls"] in ("RTFDocument", "RTFFigure", "RTFPage") or case["desc"].get("field") in ("pageby_row", "new_page"):
        return None
    field = case["desc"]["field"]
    kw = dict(case["kw"])
    v = kw[field]
    good = good_value(rng, field)
    pos = case["desc"].get("pos")
    if not isinstance(v, list):
        kw[field] = good
    elif isinstance(pos, list):
        v = [list(r) for r in v]
        v[pos[0]][pos[1]] = good
        kw[field] = v
    else:
        v = list(v)
        v[pos] = good
        kw[field] = v
    return {"cls": case["cls"], "kw": kw}


def classify(v):
    return None


def check(ctx, case, figpath, rng=None):
    ctx.count("constructor_calls")
    key = (case["cls"], case["desc"].get("field"), str(case["desc"].get("bad")), case["desc"].get("shape"),
           str(case["desc"].get("pos")))
    ctx.case(key, nontrivial=case["n"] >= 2)
    ctx.sample(case)
    ctx.distinct("class_field_pairs", f"{case['cls']}.{case['desc'].get('field')}")
    try:
        obj = construct(case, figpath)
    except Exception as e:  # noqa
        ctx.count("rejections_observed")
        ok = isinstance(e, ValueError) if case["expect"] == "ValueError" else isinstance(e, FileNotFoundError)
        if not ok:
            ctx.violation(f"{case['cls']}.{case['desc'].get('field')} invalid value raised "
                          f"{type(e).__name__} instead of {case['expect']}", case,
                          {"exc": type(e).__name__, "msg": str(e)[:200], "desc": case["desc"]})
        return
    ctx.violation(f"{case['cls']}.{case['desc'].get('field')} invalid value was accepted", case,
                  {"returned": type(obj).__name__, "desc": case["desc"]})
    if rng is None:
        return


def plan(tier, seed):
    per = 6000 if tier == "quick" else 40000
    return [{"n": per} for _ in range(16)]


def run_shard(desc, ctx):
    import rtflite as rtf
    rng = random.Random(desc["seed"])
    td = tempfile.mkdtemp(prefix="rtfmon-c19-")
    figpath = os.path.join(td, "ok.png")
    with open(figpath, "wb") as f:
        f.write(G.png_bytes(rng, 10, 10, 20))
    try:
        for _ in range(desc["n"]):
            r = rng.random()
            if r < 0.62:
                case = gen_attr_case(rng)
            elif r < 0.78:
                case = gen_page_case(rng)
            elif r < 0.84:
                case = gen_body_case(rng)
            elif r < 0.90:
                case = gen_figure_case(rng)
            else:
                case = gen_document_case(rng)
            check(ctx, case, figpath)
            twin = valid_twin(rng, case)
            if twin is not None:
                try:
                    getattr(rtf, twin["cls"])(**twin["kw"])
                    ctx.count("valid_base_accepted")
                except Exception as e:  # noqa
                    ctx.count("valid_twin_rejected(generator issue)")
                    ctx.notes.append(f"valid twin rejected: {twin} -> {type(e).__name__}: {str(e)[:100]}")
    finally:
        import shutil
        shutil.rmtree(td, ignore_errors=True)


def replay(data, ctx):
    td = tempfile.mkdtemp(prefix="rtfmon-c19-")
    figpath = os.path.join(td, "ok.png")
    with open(figpath, "wb") as f:
        f.write(G.png_bytes(random.Random(0), 10, 10, 20))
    try:
        check(ctx, data["case"], figpath)
    finally:
        import shutil
        shutil.rmtree(td, ignore_errors=True)
