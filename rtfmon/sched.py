"""Baton scheduler on sys.monitoring: deterministic thread interleavings at the
function-call boundaries of library code (PY_START events of code objects whose
file lies under src/rtflite).  Exactly one worker runs at a time; a schedule
names, per thread, the boundary numbers at which the baton is handed over and
to whom, so every schedule is replayable."""
from __future__ import annotations

import os
import sys
import threading

mon = sys.monitoring


class Scheduler:
    def __init__(self, root: str):
        self.root = root
        self.tool = mon.DEBUGGER_ID
        mon.use_tool_id(self.tool, "rtfmon-sched")
        mon.register_callback(self.tool, mon.events.PY_START, self._cb)
        mon.set_events(self.tool, mon.events.PY_START)
        self.active = False
        self.cv = threading.Condition()
        self.turn = None
        self.names: dict[int, str] = {}
        self.counts: dict[str, int] = {}
        self.plan: dict[str, dict[int, str]] = {}
        self.done: set[str] = set()
        self.order: list[str] = []
        self.taken: list[tuple] = []      # (thread, boundary, file, function, handed_to)
        self.trace: list[tuple] = []      # shared-state events appended by hooks: (thread, op)
        self.record_sites = False
        self.sites: dict[str, list] = {}

    def close(self):
        mon.set_events(self.tool, 0)
        mon.register_callback(self.tool, mon.events.PY_START, None)
        mon.free_tool_id(self.tool)

    def current(self):
        return self.names.get(threading.get_ident())

    # -- monitoring callback: runs in the thread that enters a Python function
    def _cb(self, code, offset):
        if not code.co_filename.startswith(self.root):
            return mon.DISABLE
        if not self.active:
            return None
        me = self.names.get(threading.get_ident())
        if me is None:
            return None
        k = self.counts[me] + 1
        self.counts[me] = k
        if self.record_sites:
            self.sites[me].append((os.path.relpath(code.co_filename, self.root), code.co_name))
        tgt = self.plan.get(me, {}).get(k)
        if tgt is not None:
            self._handover(me, k, tgt, code)
        return None

    def _handover(self, me, k, tgt, code):
        with self.cv:
            if tgt in self.done or tgt == me or tgt not in self.counts:
                cand = [n for n in self.order if n != me and n not in self.done]
                if not cand:
                    return
                tgt = cand[0]
            self.taken.append((me, k, os.path.relpath(code.co_filename, self.root), code.co_name, tgt))
            self.turn = tgt
            self.cv.notify_all()
            while self.turn != me and self.active:
                self.cv.wait()

    def run(self, jobs: dict, plan: dict, first: str, timeout: float = 60.0, record_sites=False):
        """jobs: name -> callable; plan: name -> {boundary: target}; -> (results, finished)"""
        self.order = list(jobs)
        self.counts = {n: 0 for n in jobs}
        self.plan = {n: {int(k): v for k, v in p.items()} for n, p in plan.items()}
        self.done = set()
        self.turn = first
        self.taken = []
        self.trace = []
        self.record_sites = record_sites
        self.sites = {n: [] for n in jobs}
        self.names = {}
        res: dict = {}

        def worker(n, fn):
            self.names[threading.get_ident()] = n
            with self.cv:
                while self.turn != n and self.active:
                    self.cv.wait()
            try:
                res[n] = ("ok", fn())
            except BaseException as e:  # noqa
                res[n] = ("exc", type(e).__name__ + ": " + str(e)[:200])
            with self.cv:
                self.done.add(n)
                rest = [m for m in self.order if m not in self.done]
                self.turn = rest[0] if rest else None
                self.cv.notify_all()

        ths = [threading.Thread(target=worker, args=(n, fn), daemon=True) for n, fn in jobs.items()]
        self.active = True
        for t in ths:
            t.start()
        finished = True
        for t in ths:
            t.join(timeout)
            if t.is_alive():
                finished = False
        if not finished:
            # release everybody: the schedule is abandoned (inconclusive), threads run free
            with self.cv:
                self.active = False
                self.cv.notify_all()
            for t in ths:
                t.join(30)
        self.active = False
        return res, finished
