"""C20 - string width measurement is consistent.

Monitor: a wrapper on the real ``get_string_width`` records every call of the
workload and evaluates the algebraic relations of the statement on the returned
values (no reference implementation of font metrics is involved, except one
independent cross-check of the font-number -> font-file map through Pillow).
"""
from __future__ import annotations

import random

PID = "C20"
LEVEL = "exploration"
RULE = ("random strings (len 0..60) over printable ASCII, Latin-1 graphic characters and Greek "
        "(U+00AD excluded: zero-width by design) x 10 fonts by number and by name x sizes 4..48 "
        "incl. fractional x units in/mm/px x dpi 36..600; one case = (string, font, size, dpi); "
        "non-trivial = non-empty string; distinct by hash of the tuple")
ASSUMPTIONS = ["Pillow/FreeType advances are quantised to 1/64 px: the 1 % scaling clause is "
               "accepted when the deviation is within len(s)/64 px per size",
               "U+00AD SOFT HYPHEN is excluded (default-ignorable, zero advance under raqm)"]
DECIDING = ["relations_evaluated", "scaling_pairs", "mono_checks", "reject_checks"]
FLOOR = {"quick": 30000, "thorough": 800000}

ASCII = [chr(c) for c in range(0x20, 0x7F)]
LATIN1 = [chr(c) for c in range(0xA1, 0x100) if c != 0xAD]
GREEK = [chr(c) for c in list(range(0x391, 0x3A2)) + list(range(0x3A3, 0x3AA)) + list(range(0x3B1, 0x3CA))]
FONT_NAMES = ["Times New Roman", "Times New Roman Greek", "Arial Greek", "Arial", "Helvetica",
              "Calibri", "Georgia", "Cambria", "Courier New", "Symbol"]


def plan(tier, seed):
    n = 16
    per = 2500 if tier == "quick" else 60000
    return [{"n": per} for _ in range(n)]


def classify(v):
    return None


def rand_string(rng):
    mode = rng.random()
    L = rng.choice([0, 1, 1, 2, 3, 5, 8, 13, 21, 34, 60]) if rng.random() < 0.5 else rng.randint(0, 60)
    if rng.random() < 0.01:
        L = rng.choice([255, 256, 257, 1023, 1024, 1025, 2000, 4097, rng.randint(300, 6000)])   # far beyond any cap
    if mode < 0.5:
        alpha = ASCII
    elif mode < 0.7:
        alpha = ASCII + LATIN1
    elif mode < 0.85:
        alpha = ASCII + GREEK
    else:
        alpha = ASCII + LATIN1 + GREEK
    return "".join(rng.choice(alpha) for _ in range(L))


def rand_size(rng):
    r = rng.random()
    if r < 0.4:
        return float(rng.randint(4, 48))
    if r < 0.7:
        return rng.randint(8, 96) / 2.0
    return round(rng.uniform(4, 48), 3)


def close(a, b, rel=1e-9):
    return abs(a - b) <= rel * max(abs(a), abs(b), 1e-300) or abs(a - b) < 1e-12


def check_case(ctx, gsw, case):
    s, fnum, size, dpi = case["s"], case["font"], case["size"], case["dpi"]
    fname = FONT_NAMES[fnum - 1]
    w_in = gsw(s, font=fnum, font_size=size, unit="in", dpi=dpi)
    w_mm = gsw(s, font=fnum, font_size=size, unit="mm", dpi=dpi)
    w_px = gsw(s, font=fnum, font_size=size, unit="px", dpi=dpi)
    w_nm = gsw(s, font=fname, font_size=size, unit="in", dpi=dpi)
    ctx.count("calls", 4)

    def bad(what, **d):
        d.update(w_in=w_in, w_mm=w_mm, w_px=w_px)
        ctx.violation(what, case, d)

    if s == "" and (w_in != 0 or w_mm != 0 or w_px != 0):
        bad("width of empty string is not 0")
    if w_in < 0 or w_mm < 0 or w_px < 0:
        bad("negative width")
    if not close(w_mm, w_in * 25.4):
        bad("mm is not in*25.4")
    if not close(w_px, w_in * dpi):
        bad("px is not in*dpi")
    if w_nm != w_in:
        bad("font number and font name disagree", w_name=w_nm)
    ctx.count("relations_evaluated", 5)
    # default dpi must be 72 and default unit inches
    if case.get("defaults"):
        w_def = gsw(s, font=fnum, font_size=size)
        if not close(w_def, gsw(s, font=fnum, font_size=size, unit="px", dpi=72.0) / 72.0):
            bad("defaults are not unit=in, dpi=72", w_def=w_def)
        ctx.count("relations_evaluated")
    # the same text at a second dpi: pixels do not depend on dpi, inches/mm follow the new dpi
    dpi2 = case.get("dpi2")
    if dpi2:
        w_in2 = gsw(s, font=fnum, font_size=size, unit="in", dpi=dpi2)
        w_mm2 = gsw(s, font=fnum, font_size=size, unit="mm", dpi=dpi2)
        w_px2 = gsw(s, font=fname, font_size=size, unit="px", dpi=dpi2)
        if not close(w_px2, w_px):
            bad("pixel width depends on dpi", dpi2=dpi2, w_px2=w_px2)
        if not close(w_in2 * dpi2, w_px) or not close(w_mm2, w_in2 * 25.4):
            bad("in/mm at a second dpi are not conversions of the pixel width", dpi2=dpi2, w_in2=w_in2, w_mm2=w_mm2)
        ctx.count("relations_evaluated", 2)
    # monotone under appending
    c = case.get("append")
    if c:
        w2 = gsw(s + c, font=fnum, font_size=size, unit="px", dpi=dpi)
        if w2 < w_px - 1e-9:
            bad("appending characters decreased the width", appended=c, w2=w2)
        ctx.count("relations_evaluated")
    # scaling with size
    size2 = case.get("size2")
    if size2 and s:
        wa = w_px
        wb = gsw(s, font=fnum, font_size=size2, unit="px", dpi=dpi)
        ctx.count("scaling_pairs")
        if wa > 0 and wb > 0:
            ra, rb = wa / size, wb / size2
            dev = abs(ra - rb) / max(ra, rb)
            if dev > 0.01:
                quantum = (len(s) / 64.0)
                if abs(ra - rb) <= quantum / size + quantum / size2:
                    ctx.count("scaling_within_quantum_only")
                else:
                    bad("width does not scale with font size within 1%", size2=size2, wb=wb, dev=dev)
        elif (wa > 0) != (wb > 0):
            bad("width zero at one size, positive at another", size2=size2, wb=wb)
    # monospace
    if fnum == 9 and s:
        wM = gsw("M", font=9, font_size=size, unit="px", dpi=dpi)
        ctx.count("mono_checks")
        if abs(w_px - len(s) * wM) > 1e-6 * max(1.0, w_px):
            bad("monospaced width != len * advance", wM=wM)


def independent_font_files(ctx):
    """the bundled file each font number resolves to must be the metric-compatible
    family documented for it; measured directly with Pillow on that file."""
    import importlib.resources as res
    from PIL import ImageFont
    import rtflite.fonts
    from rtflite.strwidth import get_string_width as gsw
    want = {1: "LiberationSerif", 2: "LiberationSerif", 3: "LiberationSans", 4: "LiberationSans",
            5: "LiberationSans", 6: "Carlito", 7: "Gelasio", 8: "Caladea", 9: "LiberationMono",
            10: "LiberationSerif"}
    base = res.files(rtflite.fonts)
    files = {}
    for p in list((base / "liberation").iterdir()) + list((base / "cros").iterdir()):
        n = p.name
        if n.endswith("-Regular.ttf"):
            files[n.split("-")[0]] = str(p)
    probe = "The quick brown fox 0123456789 mmmmiiii"
    for num, fam in want.items():
        ref = ImageFont.truetype(files[fam], size=11).getlength(probe)
        got = gsw(probe, font=num, font_size=11, unit="px")
        ctx.count("font_file_checks")
        if abs(ref - got) > 1e-9:
            ctx.violation("font number resolves to the wrong font file",
                          {"font": num, "family": fam}, {"ref": ref, "got": got})


def reject_checks(ctx, rng):
    from rtflite.strwidth import get_string_width as gsw
    bads = [("font", f) for f in [0, 11, -1, 99, "Comic Sans", "arial", "", "Times"]] + \
           [("unit", u) for u in ["cm", "pt", "", "IN", "inch"]]
    bads = bads * 3
    for kind, val in bads:
        kw = {"font": 1, "unit": "in"}
        kw[kind] = val
        ctx.count("reject_checks")
        try:
            # the empty string is measured like any other: bad arguments are still refused
            r = gsw(rng.choice(["", "", rand_string(rng) or "x"]), font_size=10, **kw)
        except ValueError:
            continue
        except Exception as e:  # noqa
            ctx.violation("unsupported font/unit raised something other than ValueError",
                          {"kind": kind, "value": val}, {"exc": type(e).__name__, "msg": str(e)[:200]})
            continue
        ctx.violation("unsupported font/unit accepted", {"kind": kind, "value": val}, {"ret": r})


def gen_case(rng):
    s = rand_string(rng)
    case = {"s": s, "font": rng.randint(1, 10), "size": rand_size(rng),
            "dpi": rng.choice([36.0, 72.0, 96.0, 144.0, 300.0, 600.0, round(rng.uniform(36, 600), 2)])}
    if rng.random() < 0.6:
        alpha = ASCII + LATIN1 + GREEK
        case["append"] = "".join(rng.choice(alpha) for _ in range(rng.randint(1, 3)))
    if rng.random() < 0.6:
        case["size2"] = rand_size(rng)
    if rng.random() < 0.1:
        case["defaults"] = True
    if rng.random() < 0.4:
        case["dpi2"] = rng.choice([36.0, 72.0, 96.0, 150.0, 600.0, round(rng.uniform(36, 600), 2)])
    if rng.random() < 0.15:
        case["font"] = 9
    return case


def same_call_same_result(ctx, rng, n):
    """the measurement is a function of its arguments: the same call made at different moments, after other
    calls, and from different threads (one call at a time, handed over through queues) returns the same value"""
    import queue
    import threading
    from rtflite.strwidth import get_string_width as gsw
    calls = []
    for _ in range(6):
        calls.append(dict(text=rand_string(rng) or "x", font=rng.randint(1, 10), font_size=rand_size(rng),
                          unit=rng.choice(["in", "mm", "px"])))
    calls.append(dict(calls[0], font=9))
    calls.append(dict(calls[0], font=1))
    workers = []
    for _ in range(3):
        qi, qo = queue.Queue(), queue.Queue()

        def loop(qi=qi, qo=qo):
            while True:
                kw = qi.get()
                if kw is None:
                    return
                try:
                    qo.put(("ok", gsw(**kw)))
                except BaseException as e:  # noqa
                    qo.put(("exc", type(e).__name__))
        t = threading.Thread(target=loop, daemon=True)
        t.start()
        workers.append((t, qi, qo))
    seen = {}
    try:
        for _ in range(n):
            k = rng.randrange(len(calls))
            who = rng.randrange(len(workers) + 1)
            kw = calls[k]
            if who == len(workers):
                try:
                    res = ("ok", gsw(**kw))
                except BaseException as e:  # noqa
                    res = ("exc", type(e).__name__)
            else:
                workers[who][1].put(kw)
                res = workers[who][2].get(timeout=60)
            ctx.count("same_call_repeated_across_threads")
            if k in seen and seen[k][0] != res:
                ctx.violation(f"the same call returned {res} on thread {who} and {seen[k][0]} on thread {seen[k][1]}",
                              {"call": kw, "threads": [seen[k][1], who]}, None)
                return
            seen.setdefault(k, (res, who))
    finally:
        for t, qi, qo in workers:
            qi.put(None)


def run_shard(desc, ctx):
    from rtflite.strwidth import get_string_width as gsw
    rng = random.Random(desc["seed"])
    if desc["shard"] == 0:
        independent_font_files(ctx)
    reject_checks(ctx, rng)
    for _ in range(5):
        same_call_same_result(ctx, rng, 60)
    for _ in range(desc["n"]):
        case = gen_case(rng)
        ctx.case((case["s"], case["font"], case["size"], case["dpi"]), nontrivial=bool(case["s"]))
        ctx.sample(case)
        try:
            check_case(ctx, gsw, case)
        except Exception as e:  # noqa
            ctx.violation("get_string_width raised on valid input", case,
                          {"exc": type(e).__name__, "msg": str(e)[:300]})


def replay(data, ctx):
    from rtflite.strwidth import get_string_width as gsw
    case = data["case"]
    if "s" in case:
        check_case(ctx, gsw, case)
    elif "call" in case:
        for k in range(5):
            same_call_same_result(ctx, random.Random(k), 120)
    else:
        reject_checks(ctx, random.Random(0))
        independent_font_files(ctx)
