"""Check runner: shards a property's workload over subprocesses, merges what the
monitors observed, decides a three-valued verdict, writes evidence and replays.

    ./check <ID> [--tier quick|thorough] [--replay FILE]

exit 0  held on everything explored (known findings are reported, not alarms)
exit 1  VIOLATION property=<id> replay=<path>
exit 2  INCONCLUSIVE (deciding monitor observed nothing / watchdog fired)
"""
from __future__ import annotations

import array
import hashlib
import importlib
import json
import os
import subprocess
import sys
import tempfile
import threading
import time
import traceback

HERE = os.path.dirname(os.path.dirname(os.path.abspath(__file__)))
REPO = os.environ.get("RTFMON_REPO", "/repo")
PY = os.environ.get("RTFMON_PY", "/venv/bin/python")
NPROC = int(os.environ.get("RTFMON_JOBS", "16"))
# runs against a scratch copy of the repository (mutation testing) must not touch the
# committed evidence / replay files
OUT = HERE if REPO == "/repo" else os.path.join(HERE, ".work", "scratch-" + os.path.basename(REPO.rstrip("/")))
MAX_EXAMPLES = 6


def use_repo():
    src = os.path.join(REPO, "src")
    if src not in sys.path:
        sys.path.insert(0, src)


def h64(obj) -> int:
    if not isinstance(obj, (bytes, str)):
        obj = json.dumps(obj, sort_keys=True, default=str)
    if isinstance(obj, str):
        obj = obj.encode("utf-8", "surrogatepass")
    return int.from_bytes(hashlib.blake2b(obj, digest_size=8).digest(), "big")


def shard_seed(seed: int, pid: str, shard) -> int:
    return h64(f"{seed}|{pid}|{shard}") & 0x7FFFFFFF


class Ctx:
    """What a shard hands back: counts, distinct non-trivial case hashes,
    monitor counters, violations (by mechanism) and a few written-out samples."""

    def __init__(self, prop):
        self.prop = prop
        self.cases = 0
        self.hashes: set[int] = set()
        self.counters: dict[str, int] = {}
        self.viol: dict[str, dict] = {}
        self.samples: list = []
        self.notes: list[str] = []

    def case(self, key, nontrivial: bool = True):
        self.cases += 1
        self._last_nontrivial = bool(nontrivial)
        if nontrivial:
            self.hashes.add(key if isinstance(key, int) else h64(key))

    def count(self, name: str, n: int = 1):
        self.counters[name] = self.counters.get(name, 0) + n

    def distinct(self, name: str, value):
        """count distinct values seen under a counter name (kept as a set)"""
        s = self.counters.setdefault("#" + name, [])
        if value not in s and len(s) < 5000:
            s.append(value)

    def sample(self, obj, limit=3):
        """keep a few written-out cases, preferring non-trivial ones"""
        nt = getattr(self, "_last_nontrivial", True)
        flags = self.__dict__.setdefault("_sample_nt", [])
        if len(self.samples) < limit:
            self.samples.append(obj)
            flags.append(nt)
        elif nt and False in flags:
            i = flags.index(False)
            self.samples[i] = obj
            flags[i] = True

    def violation(self, what: str, case, detail=None, mechanism: str | None = None):
        v = {"what": what, "case": case, "detail": detail, "hashseed": os.environ.get("PYTHONHASHSEED", "")}
        if os.environ.get("PYTHONOPTIMIZE"):
            v["optimize"] = os.environ["PYTHONOPTIMIZE"]
        if mechanism is None:
            try:
                mechanism = self.prop.classify(v)
            except Exception:  # a broken matcher must never hide a violation
                mechanism = None
        if mechanism is None:
            import re
            sig = re.sub(r"[^A-Za-z#_:. -]+", "", re.sub(r"\d+", "#", what))[:60].strip().replace(" ", "_")
            key = "U:" + sig
        else:
            key = mechanism
        slot = self.viol.setdefault(key, {"count": 0, "examples": []})
        slot["count"] += 1
        if len(slot["examples"]) < MAX_EXAMPLES:
            slot["examples"].append(v)

    def dump(self, path):
        counters = {}
        for k, v in self.counters.items():
            counters[k] = v
        with open(path + ".hashes", "wb") as f:
            array.array("Q", sorted(self.hashes)).tofile(f)
        with open(path, "w") as f:
            json.dump({"cases": self.cases, "counters": counters, "viol": self.viol,
                       "samples": self.samples, "notes": self.notes}, f, default=str)


def load_prop(pid: str):
    return importlib.import_module("rtfmon.props." + pid.lower())


def run_shard_main(pid, descfile, outfile):
    use_repo()
    prop = load_prop(pid)
    desc = json.load(open(descfile))
    ctx = Ctx(prop)
    try:
        if desc.get("kind") == "__regress__":
            # regression corpus: cases that once exposed a defect (on the pinned tree or on a seeded
            # change) are replayed on every run, whatever the seed
            for f in desc["files"]:
                try:
                    prop.replay(json.load(open(f)), ctx)
                    ctx.count("regression_cases_replayed")
                except Exception:
                    ctx.notes.append(f"regression case {os.path.basename(f)} could not be replayed: "
                                     + traceback.format_exc()[-400:])
                    ctx.count("regression_cases_unreplayable")
        else:
            if desc.get("shard", 0) % 2 == 1 and getattr(prop, "PROVOKE_FAILURES", True):
                from . import harness
                n = harness.provoke_failures()
                ctx.count("failing_calls_made_before_the_workload", n)
            if not __debug__:
                ctx.count("shards_run_as_python_-O")
            sent = None
            if getattr(prop, "SENTINELS", False):
                from . import harness
                sent = harness.Sentinels()
                sent.start()
            prop.run_shard(desc, ctx)
            if sent is not None:
                sent.finish(ctx)
    except BaseException:
        ctx.notes.append("shard crashed: " + traceback.format_exc()[-1500:])
        ctx.counters["shard_crashed"] = ctx.counters.get("shard_crashed", 0) + 1
    ctx.dump(outfile)


def load_known(pid):
    path = os.path.join(HERE, "known_findings.json")
    if not os.path.exists(path):
        return []
    data = json.load(open(path))
    return [e for e in data.get("findings", []) if e.get("property") == pid]


def run_shards(pid, descs, workdir):
    results = [None] * len(descs)
    lock = threading.Lock()
    nxt = [0]
    env = dict(os.environ)
    env["PYTHONPATH"] = HERE + os.pathsep + env.get("PYTHONPATH", "")
    env.setdefault("POLARS_MAX_THREADS", "1")
    # the library's results must not depend on the string-hash seed: shards run under different (fixed) seeds,
    # shard 0 under seed 0; a violation records the seed it was seen under and --replay re-runs under it
    hashseeds = [str(k) for k in range(24)] + ["4242", "977", "31337", "65537"]

    def worker():
        while True:
            with lock:
                k = nxt[0]
                nxt[0] += 1
            if k >= len(descs):
                return
            d = descs[k]
            dfile = os.path.join(workdir, f"d{k}.json")
            ofile = os.path.join(workdir, f"o{k}.json")
            json.dump(d, open(dfile, "w"))
            timeout = d.get("timeout", 900)
            t0 = time.time()
            envk = dict(env, PYTHONHASHSEED=d.get("hashseed") or hashseeds[k % len(hashseeds)])
            envk.pop("PYTHONOPTIMIZE", None)
            if k % 5 == 3 and not d.get("hashseed"):
                # every fifth shard runs as `python -O` does (assert statements are compiled away): what the
                # library promises must not rest on an assert
                envk["PYTHONOPTIMIZE"] = "1"
            try:
                p = subprocess.run([PY, "-m", "rtfmon.run", "--shard", pid, dfile, ofile],
                                   cwd=HERE, env=envk,
                                   timeout=timeout,
                                   stdout=subprocess.PIPE, stderr=subprocess.STDOUT)
                out = p.stdout.decode("utf-8", "replace")[-3000:]
                if os.path.exists(ofile):
                    r = json.load(open(ofile))
                    with open(ofile + ".hashes", "rb") as f:
                        a = array.array("Q")
                        a.frombytes(f.read())
                    r["hashes"] = a
                    r["rc"] = p.returncode
                    r["tail"] = out if p.returncode else ""
                else:
                    r = {"dead": True, "rc": p.returncode, "tail": out}
            except subprocess.TimeoutExpired:
                r = {"timeout": True, "after_s": round(time.time() - t0, 1)}
            results[k] = r

    threads = [threading.Thread(target=worker) for _ in range(min(NPROC, len(descs)))]
    for t in threads:
        t.start()
    for t in threads:
        t.join()
    return results


def main(argv=None):
    argv = list(sys.argv[1:] if argv is None else argv)
    if argv and argv[0] == "--shard":
        run_shard_main(argv[1], argv[2], argv[3])
        return 0
    if not argv:
        print(__doc__)
        return 2
    pid = argv[0].upper()
    tier = os.environ.get("VERIF_TIER", "quick")
    replay = None
    i = 1
    while i < len(argv):
        if argv[i] == "--tier":
            tier = argv[i + 1]; i += 2
        elif argv[i] == "--replay":
            replay = argv[i + 1]; i += 2
        else:
            print("unknown argument", argv[i]); return 2
    seed = int(os.environ.get("VERIF_SEED", "0"))
    use_repo()
    prop = load_prop(pid)
    t0 = time.time()

    if replay:
        data = json.load(open(replay))
        hs = str(data.get("hashseed") or "0")
        opt = str(data.get("optimize") or "")
        if os.environ.get("PYTHONHASHSEED") != hs or os.environ.get("PYTHONOPTIMIZE", "") != opt:
            # re-run under the string-hash seed (and the -O setting) the violation was observed with
            e2 = dict(os.environ, PYTHONHASHSEED=hs, PYTHONPATH=HERE + os.pathsep + os.environ.get("PYTHONPATH", ""))
            e2.pop("PYTHONOPTIMIZE", None)
            if opt:
                e2["PYTHONOPTIMIZE"] = opt
            os.execve(PY, [PY, "-m", "rtfmon.run"] + list(sys.argv[1:] if argv is None else argv), e2)
        ctx = Ctx(prop)
        prop.replay(data, ctx)
        n = sum(s["count"] for s in ctx.viol.values())
        for mech, slot in ctx.viol.items():
            for ex in slot["examples"]:
                print(f"replayed violation [{mech}]: {ex['what']}")
                print("  detail:", json.dumps(ex["detail"], default=str)[:2000])
        print(f"replay of {replay}: {n} violation(s)")
        return 1 if n else 0

    descs = prop.plan(tier, seed)
    import glob
    reg = sorted(glob.glob(os.path.join(HERE, "replays", pid, "regress", "*.json")))
    if reg:
        # a regression case is replayed under the string-hash seed it was first seen with
        by_seed: dict = {}
        for f in reg:
            try:
                hs = str(json.load(open(f)).get("hashseed") or "0")
            except Exception:  # noqa
                hs = "0"
            by_seed.setdefault(hs, []).append(f)
        for hs, files in sorted(by_seed.items()):
            n = 4 if len(files) > 12 else 1
            for i in range(n):
                descs.append({"kind": "__regress__", "files": files[i::n], "timeout": 1800, "hashseed": hs})
    for k, d in enumerate(descs):
        d.setdefault("shard", k)
        d.setdefault("tier", tier)
        d.setdefault("seed", shard_seed(seed, pid, d["shard"]))
    workdir = tempfile.mkdtemp(prefix=f"rtfmon-{pid}-")
    try:
        results = run_shards(pid, descs, workdir)
    finally:
        import shutil
        shutil.rmtree(workdir, ignore_errors=True)

    # ---- merge ----
    cases = 0
    hashes: set[int] = set()
    counters: dict = {}
    viol: dict = {}
    samples: list = []
    notes: list[str] = []
    incon: list[str] = []
    for k, r in enumerate(results):
        if r is None or r.get("dead"):
            incon.append(f"shard {k} died rc={None if r is None else r.get('rc')}: "
                         f"{'' if r is None else r.get('tail', '')[-400:]}")
            continue
        if r.get("timeout"):
            incon.append(f"shard {k} hit its watchdog after {r['after_s']}s")
            continue
        cases += r["cases"]
        hashes.update(r["hashes"])
        for name, v in r["counters"].items():
            if name.startswith("#"):
                cur = counters.setdefault(name, set())
                cur.update(tuple(x) if isinstance(x, list) else x for x in v)
            else:
                counters[name] = counters.get(name, 0) + v
        for mech, slot in r["viol"].items():
            cur = viol.setdefault(mech, {"count": 0, "examples": []})
            cur["count"] += slot["count"]
            for ex in slot["examples"]:
                if len(cur["examples"]) < MAX_EXAMPLES:
                    cur["examples"].append(ex)
        for s in r["samples"]:
            if len(samples) < 5:
                samples.append(s)
        notes.extend(r.get("notes", []))
    if counters.get("shard_crashed"):
        incon.append("a shard crashed inside the harness: " + " | ".join(notes)[-1200:])
    flat = {}
    for name, v in counters.items():
        if name.startswith("#"):
            flat["distinct_" + name[1:]] = len(v)
        else:
            flat[name] = v
    for name in getattr(prop, "DECIDING", []):
        if not flat.get(name):
            incon.append(f"deciding monitor counter '{name}' is zero")
    floor = getattr(prop, "FLOOR", {}).get(tier, 1)
    if cases < floor:
        incon.append(f"only {cases} cases ran (< floor {floor} for tier {tier})")
    if len(hashes) < 2:
        incon.append("fewer than 2 distinct non-trivial cases")

    # ---- known findings ----
    known = load_known(pid)
    open_by_matcher = {e["matcher"]: e for e in known if e.get("status") == "open"}
    unknown_viols = {m: s for m, s in viol.items() if m not in open_by_matcher}
    known_hits = {m: s["count"] for m, s in viol.items() if m in open_by_matcher}
    n_viol = sum(s["count"] for s in viol.values())

    wall = round(time.time() - t0, 2)
    exhaustive = bool(getattr(prop, "exhaustive", lambda tier: False)(tier))
    cov = {
        "evaluations": cases,
        "distinct_nontrivial": len(hashes),
        "rule": prop.RULE,
        "samples": samples or ["(no sample recorded)"],
        "exhaustive": exhaustive,
        "monitor_counters": flat,
        "known_finding_hits": known_hits,
        "unexplained_violations": {m: s["count"] for m, s in unknown_viols.items()},
        "shards": len(descs),
        "rtflite_source": os.path.join(REPO, "src"),
        "verdict": ("inconclusive" if incon else "violated" if unknown_viols else "held"),
    }
    if getattr(prop, "EXHAUSTIVE_NOTE", None):
        cov["exhaustive_scope"] = prop.EXHAUSTIVE_NOTE.get(tier, "")
    if incon:
        cov["inconclusive_reasons"] = incon
    ev = {
        "property_id": pid, "tier": tier, "seed": seed, "level": prop.LEVEL,
        "coverage": cov, "assumptions": list(getattr(prop, "ASSUMPTIONS", [])),
        "wall_s": wall, "violations": sum(s["count"] for s in unknown_viols.values()),
    }
    os.makedirs(os.path.join(OUT, "evidence"), exist_ok=True)
    with open(os.path.join(OUT, "evidence", pid + ".json"), "w") as f:
        json.dump(ev, f, indent=1, default=str)

    print(f"[{pid}] tier={tier} seed={seed} cases={cases} distinct_nontrivial={len(hashes)} "
          f"violations={n_viol} wall={wall}s")
    print(f"[{pid}] monitors: " + ", ".join(f"{k}={v}" for k, v in sorted(flat.items())))
    for e in known:
        if e.get("status") == "open":
            print(f"KNOWN-FINDING: property={pid} {e['id']}: {e['mechanism']} "
                  f"(observed {known_hits.get(e['matcher'], 0)}x in this run)")
    rc = 0
    if unknown_viols:
        rdir = os.path.join(OUT, "replays", pid)
        os.makedirs(rdir, exist_ok=True)
        shown = 0
        for mech, slot in sorted(unknown_viols.items(), key=lambda kv: -kv[1]["count"]):
            shown += 1
            if shown > 8:
                print(f"  ... and {len(unknown_viols) - 8} more violation signatures (see evidence)")
                break
            ex = slot["examples"][0]
            safe = "".join(ch if ch.isalnum() or ch in "-_." else "_" for ch in mech)[:70]
            name = f"{safe}-{h64(ex['case']):016x}.json"
            path = os.path.join(rdir, name)
            with open(path, "w") as f:
                json.dump({"property": pid, "mechanism": mech, "what": ex["what"],
                           "case": ex["case"], "detail": ex["detail"], "hashseed": ex.get("hashseed", "0"),
                           "count_in_run": slot["count"], "tier": tier, "seed": seed},
                          f, indent=1, default=str)
            print(f"VIOLATION property={pid} replay={path}")
            print(f"  [{mech}] x{slot['count']}: {ex['what']}")
        rc = 1
    if incon:
        for r in incon:
            print(f"INCONCLUSIVE property={pid} {r}")
        if rc == 0:
            rc = 2
    if rc == 0:
        print(f"[{pid}] held on everything explored")
    return rc


if __name__ == "__main__":
    sys.exit(main())
