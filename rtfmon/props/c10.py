"""C10 - every Unicode character reaches the reader intact.

Observed: the BYTES of the file written by write_rtf, decoded by the
independent reader per RTF rules (7-bit ASCII, \\'hh and raw high bytes in the
declared ANSI code page, \\uN with \\ucN fallback skipping, surrogate pairs).
Oracle: decoded text of every text-bearing position == the original text; every
\\u parameter within [-32768, 32767]; no lexical error.
"""
from __future__ import annotations

import contextlib
import io
import os
import random
import shutil
import tempfile

from .. import reader as R
from .. import spec as S

PID = "C10"
LEVEL = "exploration"
RULE = ("body cells: every Unicode scalar value except C0/C1 controls and \\ { } as a single-character cell and "
        "packed 32 per cell (so each also occurs at string start/end), text_convert on (minus ^ _ and '=' in packed "
        "strings) and off; thorough enumerates all 1.1M code points, quick all of U+0020..U+2FFF plus boundary "
        "points plus a stratified sample; every other text position (column header, title, subline, footnote / "
        "source as table and paragraph, page_by heading, subline_by heading, page header / footer) gets all of "
        "Latin-1, the boundary points and a stratified sample. one case = one written file; non-trivial = contains "
        "a character above U+007F; distinct by hash of the code-point block")
ASSUMPTIONS = ["bytes >= 0x80 and \\'hh outside \\u escapes decode one at a time in the code page of the current font's "
               "\\fcharset (1 = document default cp1252, 161 = cp1253, 2 = Symbol), as Word/LibreOffice do; all ten "
               "fonts are rotated over the cells and positions",
               "C0/C1 controls and the raw metacharacters are outside the quantifier"]
DECIDING = ["files_parsed", "codepoints_checked_in_body", "positions_checked", "u_escapes_checked"]
FLOOR = {"quick": 60, "thorough": 600}
EXHAUSTIVE_NOTE = {"quick": "all scalar values U+0020..U+2FFF and all boundary points as single cells",
                   "thorough": "all 1,111,998 scalar values minus controls/metacharacters as single cells and packed"}

BOUNDARY = [0x20, 0x7E, 0xA0, 0xA1, 0xB1, 0xFF, 0x100, 0x17F, 0x7FFF, 0x8000, 0x8001, 0xD7FF, 0xE000, 0xFFFD,
            0xFFFE, 0xFFFF, 0x10000, 0x10001, 0x1F600, 0x1FFFF, 0x20000, 0xEFFFF, 0x10FFFD, 0x10FFFF]
PER_DOC = 2000
COLS = 8


def exhaustive(tier):
    return tier == "thorough"


def valid_cp(cp, convert):
    if cp < 0x20 or 0x7F <= cp <= 0x9F:
        return False
    if 0xD800 <= cp <= 0xDFFF:
        return False
    if cp in (0x5C, 0x7B, 0x7D):
        return False
    if convert and cp in (0x5E, 0x5F):
        return False
    return True


def stratified(rng, n):
    out = []
    planes = [(0x100, 0x2FFF), (0x3000, 0xD7FF), (0xE000, 0xFFFF), (0x10000, 0x1FFFF), (0x20000, 0x10FFFF)]
    for lo, hi in planes:
        out += [rng.randint(lo, hi) for _ in range(n // len(planes))]
    return out


def plan(tier, seed):
    descs = []
    if tier == "thorough":
        blocks = [(lo, min(lo + 0x4000, 0x110000)) for lo in range(0, 0x110000, 0x4000)]
    else:
        blocks = [(0x0, 0x1000), (0x1000, 0x2000), (0x2000, 0x3000)]
    for lo, hi in blocks:
        descs.append({"kind": "body", "lo": lo, "hi": hi, "timeout": 1800})
    if tier == "quick":
        for i in range(5):
            descs.append({"kind": "body_sample", "n": 3000})
    npos = 8 if tier == "quick" else 16
    for i in range(npos):
        descs.append({"kind": "positions", "n": 14 if tier == "quick" else 60, "latin_slice": i, "latin_of": npos})
    return descs


def classify(v):
    return (v.get("detail") or {}).get("mech")


def mech_of(expected: str, got: str | None, errors) -> str | None:
    return None


def write_and_parse(spec, td):
    d = S.build(spec, td)
    p = os.path.join(td, "out.rtf")
    with contextlib.redirect_stdout(io.StringIO()):
        d.write_rtf(p)
    raw = open(p, "rb").read()
    return raw, R.parse(raw)


def body_doc(cells, convert, font_shift=0):
    """cells: list of strings laid out row-major in COLS columns"""
    rows = (len(cells) + COLS - 1) // COLS
    padded = cells + [""] * (rows * COLS - len(cells))
    # the same text whether the column is a String, a Categorical or an Enum column
    cols = [{"name": f"N{j}", "dtype": ["str", "str", "cat", "enum"][(j + font_shift) % 4],
             "values": [padded[r * COLS + j] for r in range(rows)]}
            for j in range(COLS)]
    # every font (the font table declares different charsets: 1, 161 Greek, 0, 2 Symbol) rotated over the columns
    fonts = [(font_shift + j) % 10 + 1 for j in range(COLS)]
    return {"kind": "table", "df": {"cols": cols}, "body": {"text_convert": convert, "text_font": fonts},
            "colheader": "none", "title": None, "page": {"nrow": 1000000}}, padded, rows


def check_body(ctx, cps, convert, packed):
    expect_prefix = ""
    if packed:
        chars = [chr(c) for c in cps if not (convert and c == 0x3D)]
        w = 32 if packed is True else int(packed)      # (cells of everyday length, and whole paragraphs in a cell)
        cells = ["".join(chars[i:i + w]) for i in range(0, len(chars), w)]
        if convert:
            # mixed strings: a LaTeX command in front of the swept characters (the conversion pass then
            # really rewrites the string); it must read back as its mapped character, the rest unchanged
            cells = ["\\pm " + c for c in cells]
            expect_prefix = "\u00b1 "
    else:
        cells = [chr(c) for c in cps]
    for start in range(0, len(cells), PER_DOC):
        chunk = cells[start:start + PER_DOC]
        spec, padded, rows = body_doc(chunk, convert, font_shift=start // PER_DOC + (3 if packed else 0))
        case = {"kind": "body", "convert": convert, "packed": packed,
                "first_cp": hex(ord(chunk[0][0])) if chunk and chunk[0] else None, "cells": len(chunk)}
        td = tempfile.mkdtemp(prefix="rtfmon-c10-")
        try:
            try:
                raw, doc = write_and_parse(spec, td)
            except Exception as e:  # noqa
                ctx.case(case, True)
                ctx.violation(f"write_rtf raised {type(e).__name__}: {str(e)[:100]}", case, None)
                continue
        finally:
            shutil.rmtree(td, ignore_errors=True)
        ctx.count("files_parsed")
        ctx.case((tuple(chunk[:3]), len(chunk), convert, packed), any(ord(ch) > 0x7F for c in chunk for ch in c))
        ctx.sample({"case": case, "file_bytes": len(raw), "non_ascii_bytes": sum(1 for b in raw if b >= 0x80)}, limit=3)
        judge_common(ctx, doc, case)
        if expect_prefix:
            padded = [(expect_prefix + c[len("\\pm "):]) if c else c for c in padded]
        got = [t for r in doc.rows() for t in r.texts]
        nch = sum(len(c) for c in chunk)
        ctx.count("codepoints_checked_in_body", nch)
        if got != padded:
            bad = []
            for i, (a, b) in enumerate(zip(padded, got)):
                if a != b:
                    bad.append((i, a, b))
            if len(got) != len(padded):
                bad.append(("cell count", len(padded), len(got)))
            cats = {}
            for i, a, b in bad:
                if isinstance(i, int):
                    cp = next((ord(x) for x, y in zip(a, b + "\0" * len(a)) if x != y), ord(a[0]) if a else 0)
                    cat = cat_of(cp)
                else:
                    cat = "layout"
                cats.setdefault(cat, []).append((i, a[:8] if isinstance(a, str) else a,
                                                 b[:12] if isinstance(b, str) else b))
            for cat, items in cats.items():
                i, a, b = items[0]
                ctx.violation(f"body text not read back intact ({cat}, convert={convert}, packed={packed}): "
                              f"{len(items)} cells, e.g. cell {i}: wrote {a!r} (U+{ord(a[0]) if isinstance(a, str) and a else 0:04X}), read {b!r}",
                              dict(case, example_cell=str(a)[:8]), {"category": cat, "count": len(items),
                                                                    "mech": KNOWN_BY_CAT.get(cat)})


def cat_of(cp):
    if cp < 0x80:
        return "ascii"
    if cp <= 0xFF:
        return "latin1_raw_utf8_under_ansi"
    if cp <= 0xFFFF:
        return "bmp"
    return "astral_out_of_range_u"


KNOWN_BY_CAT = {}


def judge_common(ctx, doc, case):
    ctx.count("u_escapes_checked", len(doc.u_params))
    if doc.errors:
        kinds = sorted({e[0] for e in doc.errors})
        ctx.violation(f"written file has lexical/structural errors: {kinds[:4]} ({len(doc.errors)} total)", case,
                      {"errors": [str(e) for e in doc.errors[:6]],
                       "mech": None})


# ------------------------------------------------------------ other positions

POSITIONS = ["colheader", "title", "subline", "footnote_table", "footnote_para", "source_table", "source_para",
             "pageby_heading", "subline_by_heading", "page_header", "page_footer", "body_with_pageby"]


TWO_LINE = {"title": "TT", "subline": "SL", "page_header": "PH", "page_footer": "PF"}
NORM_SENSITIVE = [chr(0x2126), chr(0x212A), chr(0x212B), "e" + chr(0x301), "A" + chr(0x30A), chr(0xF900), chr(0x2F800),
                  chr(0xFB01), chr(0x1E9E), chr(0x130), chr(0x131), chr(0x17F), chr(0x3C2), chr(0xA0) + "x", chr(0x2003) + "x",
                  chr(0x200B) + "x", chr(0xFEFF) + "x", chr(0x2028) + "x", chr(0xAD) + "x", chr(0x1F1E9) + chr(0x1F1EA),
                  # ASCII that LOOKS like an escape of some other notation, next to a real non-ASCII character
                  "&#945; " + chr(0x3B1), "R&#38;D caf" + chr(0xE9), "&#x3b1;" + chr(0xE9), "&amp;" + chr(0xE9),
                  "%CE%B1 " + chr(0x3B1), "U+03B1 " + chr(0x3B1), "=?utf-8?q?" + chr(0xE9)]


def position_doc(rng, texts, convert_override, two_line=None):
    """one document carrying a distinct payload string in every text position; two_line = {component:
    [convert of line 0, convert of line 1]} gives that component a second line and a per-line text_convert"""
    def payload(tag):
        return tag + texts.get(tag, "")
    n = 4
    cols = [{"name": "N0", "dtype": "str", "values": [payload("d%dc0" % r) for r in range(n)]},
            {"name": "N1", "dtype": "str", "values": [payload("G0v0")] * n},
            {"name": "N2", "dtype": "str", "values": [payload("SB0x0")] * n}]
    spec = {"kind": "table", "df": {"cols": cols},
            "body": {"page_by": ["N1"], "subline_by": ["N2"]},
            "colheader": [{"text": [payload("H0c0")]}],
            "title": {"text": payload("TT0")}, "subline": {"text": payload("SL0")},
            "page_header": {"text": payload("PH0")}, "page_footer": {"text": payload("PF0")},
            "footnote": {"text": payload("FN0"), "as_table": rng.random() < 0.5},
            "source": {"text": payload("SR0"), "as_table": rng.random() < 0.5}}
    for comp in ("title", "subline", "page_header", "page_footer", "footnote", "source"):
        if rng.random() < 0.7:
            spec[comp]["text_font"] = rng.randint(1, 10)
    if rng.random() < 0.7:
        spec["body"]["text_font"] = rng.randint(1, 10)
    if rng.random() < 0.7:
        spec["colheader"][0]["text_font"] = rng.randint(1, 10)
    for comp, conv in convert_override.items():
        if comp == "body":
            spec["body"]["text_convert"] = conv
        elif comp == "colheader":
            spec["colheader"][0]["text_convert"] = conv
        else:
            spec[comp]["text_convert"] = conv
    for comp, convs in (two_line or {}).items():
        if comp in ("alias", "autoheader"):
            continue
        tag = TWO_LINE[comp]
        spec[comp]["text"] = [payload(tag + "0"), payload(tag + "1")]
        spec[comp]["text_convert"] = list(convs)
    if (two_line or {}).get("autoheader"):
        # the header row is derived from the column NAME: the payload travels in the name
        spec["df"]["cols"][0]["name"] = payload("H0c0")
        spec["colheader"] = "default"
    if (two_line or {}).get("alias"):
        # the same column is the subline_by AND the page_by column: its value is shown twice per page, as the
        # heading paragraph and as the spanning row
        spec["body"]["subline_by"] = ["N1"]
        spec["df"]["cols"] = spec["df"]["cols"][:2]
    return spec


def effective_convert(spec):
    d = {"title": True, "subline": False, "page_header": False, "page_footer": False, "footnote": True,
         "source": True}
    out = {}
    for k, dv in d.items():
        out[k] = spec[k].get("text_convert", dv)
    out["body"] = spec["body"].get("text_convert", True)
    out["colheader"] = spec["colheader"][0].get("text_convert", True)
    return out


def check_positions(ctx, rng, pool, fixed=None):
    tags = ["TT0", "SL0", "PH0", "PF0", "FN0", "SR0", "H0c0", "G0v0", "SB0x0"] + ["d%dc0" % r for r in range(4)]
    override = {}
    for comp in ("title", "subline", "page_header", "page_footer", "footnote", "source", "body", "colheader"):
        if rng.random() < 0.4:
            override[comp] = rng.random() < 0.5
    two_line = {}
    if fixed:
        override = fixed["override"]
        two_line = fixed.get("two_line") or {}
        tags += [TWO_LINE[c] + "1" for c in two_line if c not in ("alias", "autoheader")]
    if not fixed and rng.random() < 0.25:
        two_line["alias"] = True
    if not fixed and rng.random() < 0.3 and "colheader" not in override:
        two_line["autoheader"] = True
    for comp in ([] if fixed else TWO_LINE):
        if rng.random() < 0.4 and comp not in two_line:
            two_line[comp] = [rng.random() < 0.5, rng.random() < 0.5]
            tags.append(TWO_LINE[comp] + "1")
    # decide per tag whether conversion is on, then draw characters accordingly
    tmp_spec = position_doc(rng, {t: "" for t in tags}, override)
    conv = effective_convert(tmp_spec)
    conv_of_tag = {"TT0": conv["title"], "SL0": conv["subline"], "PH0": conv["page_header"],
                   "PF0": conv["page_footer"], "FN0": conv["footnote"], "SR0": conv["source"],
                   "H0c0": conv["colheader"], "G0v0": conv["body"], "SB0x0": False}
    for r in range(4):
        conv_of_tag["d%dc0" % r] = conv["body"]
    alias = bool(two_line.get("alias"))
    if alias and "SB0x0" in tags:
        tags.remove("SB0x0")
    for comp, convs in two_line.items():
        if comp in ("alias", "autoheader"):
            continue
        conv_of_tag[TWO_LINE[comp] + "0"], conv_of_tag[TWO_LINE[comp] + "1"] = convs
    texts = {}
    long_tag = rng.choice(sorted(tags)) if tags and rng.random() < 0.15 else None
    for t in tags:
        k = rng.randint(1, 6)
        if t == long_tag:
            k = rng.choice([257, 300, 520, 1100])       # a whole paragraph of non-ASCII text in one component
        cps = [rng.choice(pool) for _ in range(k)]
        cps = [c for c in cps if valid_cp(c, conv_of_tag[t]) and not (conv_of_tag[t] and c in (0x3D,))]
        # keep the tag readable: payload never starts with a digit/letter that would extend the tag
        texts[t] = " " + "".join(chr(c) for c in cps)
        if rng.random() < 0.3:
            # characters that Unicode normalisation (NFC/NFKC), case folding or whitespace trimming would change
            texts[t] += rng.choice(NORM_SENSITIVE)
        if conv_of_tag[t]:
            # (a '<' or '>' drawn at random followed by an appended "=?utf-8?q?..." spells a comparison
            # sign, which conversion legitimately rewrites - that clause is C11's)
            texts[t] = texts[t].replace(">=", "> =").replace("<=", "< =")
        if not conv_of_tag[t] and rng.random() < 0.4:
            # with conversion off the conversion triggers are ordinary characters
            texts[t] += rng.choice([" x^2", " y_1", " a>=b", " a<=b", " ^_", " >=<="])
    if fixed:
        texts = {t: "".join(chr(int(h, 16)) for h in v) for t, v in fixed["texts"].items()}
    spec = position_doc(rng, texts, override, two_line)
    case = {"kind": "positions", "override": override, "two_line": two_line,
            "texts": {t: [hex(ord(ch)) for ch in v] for t, v in texts.items()}}
    td = tempfile.mkdtemp(prefix="rtfmon-c10-")
    try:
        try:
            raw, doc = write_and_parse(spec, td)
        except Exception as e:  # noqa
            ctx.case(case, True)
            ctx.violation(f"write_rtf raised {type(e).__name__}: {str(e)[:100]}", case, None)
            return
    finally:
        shutil.rmtree(td, ignore_errors=True)
    ctx.count("files_parsed")
    ctx.case(case, True)
    ctx.sample(case, limit=2)
    judge_common(ctx, doc, case)
    # collect every text the reader shows
    seen = {}
    seen_para = set()
    for page in doc.pages:
        for b in page.blocks:
            if b.kind == "para" and b.text:
                for line in b.text.split("\n"):
                    seen.setdefault(line, 0)
                    seen[line] += 1
                    seen_para.add(line)
            elif b.kind == "row":
                for t in b.texts:
                    seen.setdefault(t, 0)
                    seen[t] += 1
    for grp in doc.headers + doc.footers:
        for b in grp:
            if b.kind == "para":
                for line in b.text.split("\n"):
                    seen.setdefault(line, 0)
    names = {"TT1": "title", "SL1": "subline", "PH1": "page_header", "PF1": "page_footer",
             "TT0": "title", "SL0": "subline", "PH0": "page_header", "PF0": "page_footer", "FN0": "footnote",
             "SR0": "source", "H0c0": "column_header", "G0v0": "page_by_heading", "SB0x0": "subline_by_heading"}
    for t in tags:
        want = t + texts[t]
        pos = names.get(t, "body_cell")
        ctx.count("positions_checked")
        ctx.distinct("positions", pos + ("/table" if pos in ("footnote", "source") and spec[pos]["as_table"]
                                         else "/para" if pos in ("footnote", "source") else ""))
        if want in seen and not (alias and t == "G0v0" and want not in seen_para):
            continue
        if alias and t == "G0v0":
            pos = "subline_by_heading (same column as page_by)"
        near = [s for s in seen if s.startswith(t)]
        worst = max((ord(ch) for ch in texts[t]), default=0)
        mech = None
        ctx.violation(f"{pos} text not read back intact (convert={conv_of_tag[t]}): wrote {want!r}, "
                      f"read {near[:1]!r}", dict(case, position=pos), {"position": pos, "category": cat_of(worst),
                                                                      "mech": mech})


def run_shard(desc, ctx):
    rng = random.Random(desc["seed"])
    if desc["kind"] == "body":
        for convert in (True, False):
            cps = [c for c in range(desc["lo"], desc["hi"]) if valid_cp(c, convert)]
            if desc["lo"] == 0:
                cps += [c for c in BOUNDARY if c >= desc["hi"] and valid_cp(c, convert)]
            if not cps:
                continue
            check_body(ctx, cps, convert, packed=False)
            check_body(ctx, cps, convert, packed=True)
            check_body(ctx, cps, convert, packed=rng.choice([257, 300, 520, 1100]))
    elif desc["kind"] == "body_sample":
        cps = [c for c in stratified(rng, desc["n"]) if valid_cp(c, True)]
        conv = rng.random() < 0.5
        check_body(ctx, cps, conv, packed=False)
        check_body(ctx, cps, conv, packed=True)
        check_body(ctx, cps, conv, packed=rng.choice([257, 300, 520, 1100]))
    else:
        latin = [c for c in range(0x20, 0x100) if valid_cp(c, False)]
        sl = latin[desc["latin_slice"]::desc["latin_of"]]
        for i in range(desc["n"]):
            r = rng.random()
            if r < 0.4:
                pool = sl
            elif r < 0.6:
                pool = BOUNDARY
            else:
                pool = stratified(rng, 40) + sl[:4]
            check_positions(ctx, rng, pool)


def replay(data, ctx):
    c = data["case"]
    rng = random.Random(0)
    if c.get("kind") == "body":
        cp = int(c["first_cp"], 16) if c.get("first_cp") else 0x20
        ex = c.get("example_cell")
        cps = [ord(ch) for ch in ex] if ex else list(range(cp, cp + 64))
        check_body(ctx, [x for x in cps if valid_cp(x, c["convert"])], c["convert"], False)
    else:
        pool = sorted({int(h, 16) for v in c["texts"].values() for h in v}) or [0xE9]
        for _ in range(4):
            check_positions(ctx, rng, pool, fixed=c)
        check_positions(ctx, rng, pool)
