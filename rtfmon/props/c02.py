"""C02 - no data cell is lost, duplicated, reordered or altered.

Oracle: the output is read back; the data rows of all pages, concatenated in
page order, must equal the DataFrame's rows (display text of the displayed
columns, original order), every table row must be classifiable by its
sentinels.  Conservation hook on the three paginate() methods: the page slices
concatenate back to the paginated frame.
"""
from __future__ import annotations

import itertools
import random

from .. import expect as E
from .. import gen as G
from .. import harness as H
from .. import reader as R
from ..spec import strip_meta

PID = "C02"
LEVEL = "exploration"
# a few fixed documents are encoded before and after every shard's workload (harness.Sentinels)
SENTINELS = True
RULE = ("random single- and multi-section tables (0..50 rows, 1..7 cols; key column tagged d<row>c<col>; "
        "other cells strings with blanks / ints / floats / nulls / long wrapping text) x nrow 1..50 x all "
        "strategies (plain, page_by new_page on/off, pageby_row column/first_row, subline_by, "
        "subline_by+page_by, nested page_by) x header/footnote/source variants, text_convert on "
        "(conversion-free text) and off (printable ASCII minus \\ { }), group_by absent; plus the exhaustive "
        "grid rows x nrow x 7 strategies x 3 header modes. non-trivial = >=2 pages or >=1 column removed; "
        "distinct by spec hash")
ASSUMPTIONS = ["reader-decoded cell text is what a reader shows", "group_by absent (C13 covers suppression)"]
DECIDING = ["docs_parsed", "data_rows_compared", "multi_page_docs", "paginate_hook_calls"]
FLOOR = {"quick": 1500, "thorough": 25000}
EXHAUSTIVE_NOTE = {"quick": "grid rows 0..6 x nrow {1,2,3,5} x 7 strategies x 3 header modes enumerated completely",
                   "thorough": "grid rows 0..12 x nrow 1..8 x 7 strategies x 3 header modes enumerated completely"}

STRATEGIES = ["plain", "page_by", "page_by_new", "page_by_new_first", "subline", "subline_page_by", "nested"]


def exhaustive(tier):
    return False


def plan(tier, seed):
    per = 200 if tier == "quick" else 2800
    descs = [{"kind": "random", "n": per} for _ in range(14)]
    if tier == "quick":
        grid = list(itertools.product(range(0, 7), [1, 2, 3, 5], STRATEGIES, ["default", "none", "explicit"]))
    else:
        grid = list(itertools.product(range(0, 13), range(1, 9), STRATEGIES, ["default", "none", "explicit"]))
    for k in range(2):
        descs.append({"kind": "grid", "cells": grid[k::2]})
    return descs


def classify(v):
    return None


class PaginateHook:
    def __init__(self):
        self.calls = 0
        self.bad = []
        self.orig = {}

    def install(self):
        import polars as pl
        from rtflite.pagination.strategies.defaults import DefaultPaginationStrategy
        from rtflite.pagination.strategies.grouping import PageByStrategy, SublineStrategy
        hook = self
        for cls in (DefaultPaginationStrategy, PageByStrategy, SublineStrategy):
            orig = cls.__dict__["paginate"]
            self.orig[cls] = orig

            def make(orig, cls):
                def paginate(self_s, context):
                    pages = orig(self_s, context)
                    hook.calls += 1
                    try:
                        total = sum(p.data.height for p in pages)
                        ok = total == context.df.height
                        if ok and pages:
                            ok = pl.concat([p.data for p in pages]).equals(context.df)
                        nums = [p.page_number for p in pages]
                        ok = ok and nums == sorted(nums) and all(p.data.height > 0 for p in pages)
                        if pages:
                            ok = ok and pages[0].is_first_page and pages[-1].is_last_page
                            ok = ok and sum(p.is_first_page for p in pages) == 1 and sum(p.is_last_page for p in pages) == 1
                        if not ok and len(hook.bad) < 3:
                            hook.bad.append({"strategy": cls.__name__, "df_rows": context.df.height,
                                             "page_rows": [p.data.height for p in pages], "page_numbers": nums})
                    except Exception as e:  # noqa
                        hook.bad.append({"strategy": cls.__name__, "hook_error": repr(e)})
                    return pages
                return paginate
            cls.paginate = make(orig, cls)
        return self

    def uninstall(self):
        for cls, orig in self.orig.items():
            cls.paginate = orig


def sections_of(spec):
    if spec.get("kind") == "multi":
        return [(s["df"], s.get("body", {})) for s in spec["sections"]]
    return [(spec["df"], spec.get("body", {}))]


def check_spec(ctx, spec, hook):
    case = strip_meta(spec)
    o = H.build_and_encode(spec)
    if o.stage == "build":
        ctx.count("rejected_at_construction")
        return
    secs = sections_of(spec)
    if o.stage == "encode":
        ctx.case(case, True)
        info = H.exc_info(o.exc)
        ctx.violation(f"rtf_encode raised {info['exc']} @ {info['where']}", case, info)
        return
    doc = R.parse(o.out)
    ctx.count("docs_parsed")
    exp = []
    removed = 0
    for dfs, body in secs:
        exp.extend(E.expected_rows(dfs, body))
        removed += len(dfs["cols"]) - len(E.displayed_columns(dfs, body))
    npages = len(doc.pages)
    ctx.case(case, npages >= 2 or removed >= 1)
    ctx.sample({"pages": npages, "rows": len(exp), "spec": case}, limit=2)
    if npages >= 2:
        ctx.count("multi_page_docs")
    if removed:
        ctx.count("docs_with_removed_columns")
    ctx.count("pages_parsed", npages)
    # (Float grouping keys - "nan", "-0.0" ... - cannot carry a sentinel tag: their heading rows are known from the spec)
    fk = spec.get("kind", "table") == "table" and any(c["dtype"] == "floatx" for c in spec["df"]["cols"])
    got_rows, unk = E.observed_data_rows(doc, E.extra_roles(spec) if fk else None)
    got = [t for _, t in got_rows]
    ctx.count("data_rows_compared", len(exp))
    ctx.count("cells_compared", sum(len(r) for r in exp))
    if doc.errors:
        ctx.violation("output not well-formed: " + str(doc.errors[:2]), case, {"errors": str(doc.errors[:5])})
    if unk:
        ctx.violation(f"unclassifiable table row {unk[0][1]!r} on page {unk[0][0]}", case,
                      {"unclassifiable": unk[:5]})
    if got != exp:
        d = E.first_diff(exp, got)
        what = (f"data rows differ at row {d[0]}: expected {d[1]!r}, got {d[2]!r} "
                f"(expected {len(exp)} rows, read {len(got)})")
        ctx.violation(what, case, {"first_diff": d, "n_expected": len(exp), "n_got": len(got),
                                   "pages_of_rows": [p for p, _ in got_rows][:80]})
    else:
        pages_seq = [p for p, _ in got_rows]
        if pages_seq != sorted(pages_seq):
            ctx.violation("data rows not in page order", case, {"pages": pages_seq})
    if hook.bad:
        ctx.violation("paginate() page slices do not partition the frame: " + str(hook.bad[0]), case,
                      {"hook": list(hook.bad)})
        hook.bad.clear()


def gen_random(rng):
    convert = rng.random() < 0.6
    nrow = rng.choice([None, rng.randint(1, 50), rng.randint(1, 8), rng.randint(2, 15)])
    if rng.random() < 0.03:
        # sizes small examples never reach: hundreds of rows, pages of a hundred rows, a dozen columns
        return G.gen_table_spec(rng, nrows=(120, 400), ncols=(1, 14), nrow=rng.choice([None, 66, 100, 130, 7]),
                                convert=convert, attrs_p=0.05, maxruns=rng.choice([4, 12, 40]))
    if rng.random() < 0.85:
        spec = G.gen_table_spec(rng, nrows=rng.choice([(0, 4), (1, 20), (10, 50)]), ncols=(1, 7), nrow=nrow,
                                convert=convert, attrs_p=0.08, long_p=rng.choice([0, 0, 0.1, 0.3]),
                                attr_names=["text_font", "text_font_size", "text_format", "text_justification",
                                            "border_top", "border_bottom", "cell_height"])
        pbn = spec["body"].get("page_by") or []
        nn = len(spec["df"]["cols"][0]["values"])
        if (pbn or spec["body"].get("subline_by")) and rng.random() < 0.1:
            # a grouping column of Float dtype with NaN (not equal to itself), the infinities and -0.0
            kc = rng.choice(pbn + (spec["body"].get("subline_by") or []))
            col = next(c for c in spec["df"]["cols"] if c["name"] == kc)
            if col["dtype"] == "str" and E.DIVIDER not in col["values"] and "" not in col["values"]:
                G.float_keys(rng, col)
        if pbn and not spec["body"].get("subline_by") and nn >= 3 and rng.random() < 0.15:
            # page_by values that come back after another value (A, B, A): the rows still appear in input order
            col = next(c for c in spec["df"]["cols"] if c["name"] == pbn[-1])
            i, j = sorted(rng.sample(range(nn), 2))
            col["values"][j] = col["values"][0]
            col["values"][i] = col["values"][-1]
        if not convert and rng.random() < 0.3:
            # the very same string once with conversion on (title, rendered first) and once with it off (cell)
            cands = [v for c in spec["df"]["cols"] if c["dtype"] == "str" for v in c["values"]
                     if isinstance(v, str) and any(t in v for t in ("^", "_", ">=", "<="))]
            if cands:
                spec["title"] = {"text": rng.choice(cands), "text_convert": True}
        return spec
    return G.gen_multi_spec(rng, convert=convert, nrow=nrow, attrs_p=0.05, nrows=(0, 14),
                            long_p=rng.choice([0, 0.1]))


def gen_grid_cell(rng, n, nrow, strategy, header):
    return G.gen_table_spec(rng, nrows=n, ncols=(1, 4), strategy=strategy, header=header, nrow=nrow,
                            attrs_p=0.0, title=rng.random() < 0.5, footnote=rng.random() < 0.4,
                            source=rng.random() < 0.4, subline=False, page_hf=False, page={})


def run_shard(desc, ctx):
    rng = random.Random(desc["seed"])
    hook = PaginateHook().install()
    try:
        if desc["kind"] == "random":
            for _ in range(desc["n"]):
                check_spec(ctx, G.maybe_prior(rng, gen_random(rng)), hook)
        else:
            for n, nrow, st, hm in desc["cells"]:
                ctx.count("grid_cells")
                check_spec(ctx, gen_grid_cell(rng, n, nrow, st, hm), hook)
    finally:
        ctx.count("paginate_hook_calls", hook.calls)
        hook.uninstall()


def replay(data, ctx):
    hook = PaginateHook().install()
    check_spec(ctx, data["case"], hook)
    hook.uninstall()
