"""Independent reference rules shared by the oracles (written from the property
statements and the public documentation, not from rtflite's code)."""
from __future__ import annotations

import re

TAG_DATA = re.compile(r"d(\d+)c(\d+)")
TAG_HDR = re.compile(r"H(\d+)c(\d+)")
# column names: the tag, possibly in lower case, possibly followed by a decoration that starts with a non-word
# character ("N3 (%)", "N1, n", "N2 \u2126")
TAG_COL = re.compile(r"\s*[Nn](\d+)(\W.*)?", re.S)
TAG_GRP = re.compile(r"G(\d+)v(\d+)")
TAG_SB = re.compile(r"SB(\d+)x(\d+)")
DIVIDER = "-----"

BORDER_WORD = {
    "single": "brdrs", "double": "brdrdb", "thick": "brdrth", "dotted": "brdrdot",
    "dashed": "brdrdash", "small-dash": "brdrdashsm", "dash-dotted": "brdrdashd",
    "dash-dot-dotted": "brdrdashdd", "triple": "brdrtriple", "wavy": "brdrwavy",
    "double-wavy": "brdrwavydb", "striped": "brdrengrave", "embossed": "brdremboss",
    "engraved": "brdrengrave", "frame": "brdrframe", "": None,
}
JUST_WORD = {"l": "ql", "c": "qc", "r": "qr", "d": "qd", "j": "qj", "": None}
ROWJUST_WORD = {"l": "trql", "c": "trqc", "r": "trqr", "": None}
VALIGN_WORD = {"top": "clvertalt", "center": "clvertalc", "bottom": "clvertalb", "": None}
FONT_NAMES = ["Times New Roman", "Times New Roman Greek", "Arial Greek", "Arial", "Helvetica",
              "Calibri", "Georgia", "Cambria", "Courier New", "Symbol"]


def twips(inches: float) -> int:
    return round(inches * 1440)


def display(v) -> str:
    """display text of a data value: empty for null, otherwise its str() (dates are kept as ISO
    strings in the specs and that is also their str())"""
    return "" if v is None else str(v)


def select(place: str, p: int, n: int) -> bool:
    return place == "all" or (place == "first" and p == 0) or (place == "last" and p == n - 1)


def broadcast(value, r: int, c: int):
    """value[r mod R][c mod C] on the user's attribute (scalar / flat list / matrix)"""
    if value is None:
        return None
    if not isinstance(value, (list, tuple)):
        return value
    if len(value) and isinstance(value[0], (list, tuple)):
        row = value[r % len(value)]
        return row[c % len(row)]
    if isinstance(value, tuple):       # documented: a tuple is a column vector
        return value[r % len(value)]
    return value[c % len(value)]


def spanning_mode(body: dict) -> bool:
    """page_by values are shown as spanning rows (and their columns removed)"""
    return bool(body.get("page_by")) and not (
        body.get("new_page") and body.get("pageby_row", "column") == "column")


def displayed_columns(dfspec: dict, body: dict) -> list[int]:
    removed = set(body.get("subline_by") or [])
    if spanning_mode(body):
        removed |= set(body.get("page_by") or [])
    return [j for j, c in enumerate(dfspec["cols"]) if c["name"] not in removed]


def rel_widths(dfspec: dict, body: dict):
    """relative width per ORIGINAL column (None for a column the widths do not cover), or None when the
    given list matches no documented form.  Forms: omitted, one value (broadcast), one per column, and the
    documented short form with subline_by: one per column that remains once the subline_by columns are gone"""
    ncol = len(dfspec["cols"])
    w = body.get("col_rel_width")
    if w is None:
        return [1] * ncol
    if not isinstance(w, (list, tuple)):
        return [w] * ncol
    w = list(w)
    if len(w) == 1 and ncol > 1:
        return w * ncol
    if len(w) == ncol:
        return w
    sb = [j for j, c in enumerate(dfspec["cols"]) if c["name"] in (body.get("subline_by") or [])]
    if sb and len(w) == ncol - len(sb):
        it = iter(w)
        return [None if j in sb else next(it) for j in range(ncol)]
    return None


def prefix_contiguous(rows: list[tuple]) -> bool:
    """group keys are contiguous at every level: for each prefix length L, equal
    prefixes of length L form one contiguous run (None is a value of its own)."""
    if not rows:
        return True
    levels = len(rows[0])
    for L in range(1, levels + 1):
        seen = set()
        prev = object()
        for r in rows:
            k = tuple(r[:L])
            if k != prev:
                if k in seen:
                    return False
                seen.add(k)
                prev = k
    return True


def first_level_contiguous(values: list) -> bool:
    seen = set()
    prev = object()
    for v in values:
        if v != prev:
            if v in seen:
                return False
            seen.add(v)
            prev = v
    return True


# ------------------------------------------------------------------ roles

def para_role(text: str) -> str | None:
    t = text.lstrip()
    if t.startswith("TT"):
        return "title"
    if t.startswith("SL"):
        return "subline"
    if t.startswith("SB"):
        return "subline_by"
    if t.startswith("FN"):
        return "footnote_para"
    if t.startswith("SR"):
        return "source_para"
    return None


def row_role(texts: list[str]) -> str | None:
    if not texts:
        return None
    if len(texts) == 1:
        t = texts[0]
        if TAG_GRP.fullmatch(t):
            return "heading"
        if t.strip() == "":
            # a full-width row without text: the heading of a page_by group whose value is blank
            # (data rows always carry the key tag, footnote/source rows their own tag)
            return "heading"
        if t.startswith("FN"):
            return "footnote_row"
        if t.startswith("SR"):
            return "source_row"
    if all(TAG_HDR.fullmatch(t) for t in texts):
        return "header"
    if len(texts) >= 2 and all(t.strip() == "" for t in texts):
        # a row of several cells without any text can only be a header row whose labels are blank (data rows carry
        # their key tag, group headings and footnote / source rows have one cell)
        return "header"
    if any(TAG_DATA.fullmatch(t) for t in texts):
        return "data"
    if all(TAG_COL.fullmatch(t) for t in texts):
        return "header_auto"
    return None


def extra_roles(spec):
    """heading / subline texts of a single-table spec whose group values do not follow the sentinel scheme
    (numbers, near-divider strings, free-form labels): for page_roles(..., extra)"""
    body = spec.get("body", {})
    cols = spec["df"]["cols"]
    names = [c["name"] for c in cols]
    out = {"heading": set(), "subline_by": set()}
    for c in body.get("page_by") or []:
        out["heading"] |= {display(v) for v in cols[names.index(c)]["values"]} - {DIVIDER}
    sbc = body.get("subline_by") or []
    if sbc and cols:
        n = len(cols[0]["values"])
        out["subline_by"] = {", ".join(display(cols[names.index(c)]["values"][r]) for c in sbc) for r in range(n)}
    return out


def page_roles(page, extra=None):
    """[(role, block)] for the content blocks of a parsed page; role None = unclassifiable.
    extra = {"heading": set_of_texts, "subline_by": set_of_texts}: group values that do not follow the
    sentinel scheme (numbers, colliding strings) but are known from the spec"""
    from .reader import content_blocks
    out = []
    for b in content_blocks(page):
        if b.kind == "para":
            role = para_role(b.text)
            if role is None and extra and b.text in extra.get("subline_by", ()):
                role = "subline_by"
            out.append((role, b))
        elif b.kind == "row":
            role = row_role(b.texts)
            if role is None and extra and len(b.texts) == 1 and b.texts[0] in extra.get("heading", ()):
                role = "heading"
            out.append((role, b))
        else:
            out.append(("pict", b))
    return out


def data_key(row) -> tuple[int, int] | None:
    for t in row.texts:
        m = TAG_DATA.fullmatch(t)
        if m:
            return int(m.group(1)), int(m.group(2))
    return None


# ------------------------------------------------------------------ data rows

def expected_rows(dfspec: dict, body: dict) -> list[list[str]]:
    cols = displayed_columns(dfspec, body)
    n = len(dfspec["cols"][0]["values"]) if dfspec["cols"] else 0
    return [[display(dfspec["cols"][j]["values"][r]) for j in cols] for r in range(n)]


def observed_data_rows(doc, extra=None):
    """-> (rows [(page, texts)], unclassifiable [(page, texts)])"""
    rows, unk = [], []
    for pi, page in enumerate(doc.pages):
        for role, b in page_roles(page, extra):
            if b.kind != "row":
                continue
            if role == "data":
                rows.append((pi, b.texts))
            elif role is None:
                unk.append((pi, b.texts))
    return rows, unk


def first_diff(exp, got):
    for i, (a, b) in enumerate(zip(exp, got)):
        if a != b:
            return i, a, b
    if len(exp) != len(got):
        i = min(len(exp), len(got))
        return i, exp[i] if i < len(exp) else None, got[i] if i < len(got) else None
    return None
