"""JSON document-spec -> rtflite objects.

A spec is plain JSON so that it can be hashed, sampled into evidence, stored as
a replay and shipped to a fresh interpreter.  Keys starting with "_" are
metadata for the oracles and ignored by ``build``.

{
  "kind": "table" | "multi" | "figure",
  "df": {"cols": [{"name": str, "dtype": "str"|"int"|"float", "values": [...]}, ...]},
  "body": {RTFBody kwargs},
  "colheader": "default" | "none" | [ {RTFColumnHeader kwargs}, ... ],
  "page": {RTFPage kwargs} | absent,
  "title": "default" | null | {kwargs},        (default = argument omitted)
  "subline" / "page_header" / "page_footer" / "footnote" / "source": null | {kwargs},
  "sections": [ {"df":..., "body":..., "colheader": "default"|"none"|[...]} ]   (kind=multi)
  "multi_header": "flat" | "nested"                                            (kind=multi)
  "figure": {"files": [{"name": str, "hex": str}], "kw": {RTFFigure kwargs}}   (kind=figure)
}
"""
from __future__ import annotations

import os

DTYPES = None


def _dtypes():
    global DTYPES
    if DTYPES is None:
        import polars as pl
        DTYPES = {"str": pl.Utf8, "int": pl.Int64, "float": pl.Float64, "bool": pl.Boolean, "date": pl.Date,
                  "int32": pl.Int32, "float32": pl.Float32, "datetime": pl.Datetime, "time": pl.Time,
                  "decimal": pl.Decimal(12, 2), "floatx": pl.Float64, "cat": pl.Categorical, "uint8": pl.UInt8,
                  "null": pl.Null}
    return DTYPES


def mkdf(dfspec, form=0):
    """form: 0 as built, 1 clone, 2 through a LazyFrame, 3 a slice of a longer frame, 4 rechunked concat"""
    df = _mkdf(dfspec)
    import polars as pl
    k = (form // 11) % 8 if form else 0
    if k == 1:
        return df.clone()
    if k == 2:
        return df.lazy().collect()
    if k == 3 and df.height:
        return pl.concat([df, df]).slice(0, df.height)
    if k == 4 and df.height >= 2:
        h = df.height // 2
        return pl.concat([df.slice(0, h), df.slice(h)], rechunk=False)
    return df


def _mkdf(dfspec):
    import polars as pl
    dt = _dtypes()
    data = {}
    schema = {}
    import datetime
    import decimal
    for c in dfspec["cols"]:
        vals = c["values"]
        d = c["dtype"]
        # values that JSON cannot carry are kept as the text their Python value prints as
        if d == "date":
            vals = [None if v is None else datetime.date.fromisoformat(v) for v in vals]
        elif d == "datetime":
            vals = [None if v is None else datetime.datetime.fromisoformat(v) for v in vals]
        elif d == "time":
            vals = [None if v is None else datetime.time.fromisoformat(v) for v in vals]
        elif d == "decimal":
            vals = [None if v is None else decimal.Decimal(v) for v in vals]
        elif d == "floatx":
            vals = [None if v is None else float(v) for v in vals]
        data[c["name"]] = vals
        if d == "enum":
            schema[c["name"]] = pl.Enum(sorted({v for v in vals if v is not None}))
        else:
            schema[c["name"]] = dt[d]
    return pl.DataFrame(data, schema=schema)


def nrows(dfspec) -> int:
    return len(dfspec["cols"][0]["values"]) if dfspec["cols"] else 0


def _headers(rtf, h, forms=0):
    if h == "none":
        return []
    return [rtf.RTFColumnHeader(**(_share_lists(kw) if forms and forms % 3 == 0 else kw)) for kw in h]


def write_figures(figspec, tmpdir):
    paths = []
    for k, f in enumerate(figspec["files"]):
        p = os.path.join(tmpdir, f["name"])
        with open(p, "wb") as fh:
            fh.write(bytes.fromhex(f["hex"]))
        paths.append(p)
    order = figspec.get("order")
    if order:
        # the figure list may name the same file more than once
        paths = [paths[i] for i in order]
    return paths


_SHARED_ARGS: dict = {}


def _share_lists(kwargs):
    """equal-valued list arguments of one document become the SAME list object (a caller who keeps one
    `widths = [...]` or `just = [...]` variable and passes it to several components): a component that edits
    an argument in place then changes what the next component receives"""
    import json
    out = {}
    for k, v in kwargs.items():
        if isinstance(v, list) and v and k not in ("page_by", "subline_by", "group_by"):
            key = json.dumps(v, sort_keys=True, default=str)
            v = _SHARED_ARGS.setdefault(key, v)
        out[k] = v
    return out


def _alt_forms(kwargs, seed):
    """equivalent input forms of the public API: a grouping key given as a string instead of a list of
    one, text as a tuple instead of a list, int-valued floats ... (selected by the spec's "_forms" number)"""
    if not seed:
        return kwargs
    import random
    rng = random.Random(seed)
    out = dict(kwargs)
    if seed % 3 == 0:
        return _share_lists(out)
    for k in ("page_by", "subline_by", "group_by"):
        v = out.get(k)
        if isinstance(v, list) and len(v) == 1 and rng.random() < 0.5:
            out[k] = v[0]
    t = out.get("text")
    if isinstance(t, list) and len(t) == 1 and rng.random() < 0.5:
        out["text"] = t[0]
    elif isinstance(t, list) and rng.random() < 0.3:
        out["text"] = tuple(t)
    for k in ("text_font_size", "cell_height"):
        v = out.get(k)
        if isinstance(v, int) and not isinstance(v, bool) and rng.random() < 0.5:
            out[k] = float(v)
    # numbers typed as text (read from a configuration file): pydantic converts "20" and "9.5"
    for k in ("nrow", "text_font_size", "text_font", "border_width", "text_space_before", "text_space_after",
              "text_indent_left"):
        v = out.get(k)
        if isinstance(v, (int, float)) and not isinstance(v, bool) and rng.random() < 0.15:
            out[k] = str(v)
    # array-likes: a 1-D numpy array for a per-column vector, a 2-D array or a DataFrame for a matrix
    for k, v in list(out.items()):
        if not (k.startswith("text_") and isinstance(v, list) and len(v) > 1):
            continue
        if all(isinstance(x, list) for x in v):
            if len({len(x) for x in v}) != 1 or len({type(y) for x in v for y in x}) != 1:
                continue
            r = rng.random()
            if r < 0.25:
                import numpy as np
                out[k] = np.array(v)
            elif r < 0.4 and k != "text_convert":
                import polars as pl
                out[k] = pl.DataFrame({f"c{j}": [row[j] for row in v] for j in range(len(v[0]))})
        elif not any(isinstance(x, list) for x in v) and len({type(x) for x in v}) == 1 and rng.random() < 0.3:
            import numpy as np
            out[k] = np.array(v)
    return out


class _Pooled:
    """stands in for the rtflite module while a document with "prior" documents is built: a component class
    called with keyword arguments equal to an earlier call's returns the SAME object (a caller who keeps one
    `header = RTFColumnHeader()`, one footnote, one body and builds several documents from them)"""

    def __init__(self, rtf, pool):
        self._rtf, self._pool = rtf, pool

    def __getattr__(self, name):
        cls = getattr(self._rtf, name)
        if not (isinstance(cls, type) and name.startswith("RTF") and name != "RTFDocument"):
            return cls
        import json

        def make(**kwargs):
            try:
                key = (name, json.dumps(kwargs, sort_keys=True, default=repr))
            except Exception:  # noqa
                return cls(**kwargs)
            if key not in self._pool:
                self._pool[key] = cls(**kwargs)
            return self._pool[key]
        return make


def build_components(spec, tmpdir=None, pool=None):
    """-> dict of keyword arguments for RTFDocument (objects constructed)."""
    import rtflite as rtf
    if pool is not None:
        rtf = _Pooled(rtf, pool)
    kw = {}
    forms = spec.get("_forms", 0)
    _SHARED_ARGS.clear()
    kind = spec.get("kind", "table")
    if kind == "table":
        kw["df"] = mkdf(spec["df"], forms)
        kw["rtf_body"] = rtf.RTFBody(**_alt_forms(spec.get("body", {}), forms))
        h = spec.get("colheader", "default")
        if h != "default":
            kw["rtf_column_header"] = _headers(rtf, h, forms)
    elif kind == "multi":
        kw["df"] = [mkdf(s["df"], forms) for s in spec["sections"]]
        kw["rtf_body"] = [rtf.RTFBody(**s.get("body", {})) for s in spec["sections"]]
        if spec.get("share_section_bodies"):
            # rtf_body=[b, b]: ONE body object for all sections whose body values are equal to the first one's
            first = spec["sections"][0].get("body", {})
            kw["rtf_body"] = [kw["rtf_body"][0] if s.get("body", {}) == first else b
                              for s, b in zip(spec["sections"], kw["rtf_body"])]
        mode = spec.get("multi_header", "nested")
        if mode == "nested":
            nested = []
            for s in spec["sections"]:
                h = s.get("colheader", "default")
                if h == "default":
                    nested.append([rtf.RTFColumnHeader()])
                elif h == "none":
                    nested.append([None])
                else:
                    nested.append(_headers(rtf, h))
            kw["rtf_column_header"] = nested
        elif mode == "flat":
            h = spec["sections"][0].get("colheader", "default")
            if h != "default":
                kw["rtf_column_header"] = _headers(rtf, h)
    elif kind == "figure":
        assert tmpdir is not None, "figure specs need a tmpdir"
        paths = write_figures(spec["figure"], tmpdir)
        fkw = dict(spec["figure"].get("kw", {}))
        if forms and forms % 2:
            import pathlib
            paths = [pathlib.Path(p) if i % 2 == 0 else p for i, p in enumerate(paths)]
        if spec["figure"].get("single_path") and len(paths) == 1:
            fkw["figures"] = paths[0]
        else:
            fkw["figures"] = paths
        kw["rtf_figure"] = rtf.RTFFigure(**fkw)
    if "page" in spec:
        kw["rtf_page"] = rtf.RTFPage(**_alt_forms(spec["page"], forms and forms + 7))
    t = spec.get("title", "default")
    if t is None:
        kw["rtf_title"] = None
    elif t != "default":
        kw["rtf_title"] = rtf.RTFTitle(**_alt_forms(t, forms))
    for key, cls in (("subline", "RTFSubline"), ("page_header", "RTFPageHeader"),
                     ("page_footer", "RTFPageFooter"), ("footnote", "RTFFootnote"),
                     ("source", "RTFSource")):
        v = spec.get(key)
        if v is not None:
            kw["rtf_" + key] = getattr(rtf, cls)(**_alt_forms(v, forms and forms + len(key)))
    return kw


def apply_post(doc, spec):
    """"post_assign": [[component attribute of the document, field, value], ...] - attribute assignments made
    AFTER construction (pydantic does not re-validate them), e.g. a palette that is only found invalid when the
    document is encoded"""
    for comp, field, value in spec.get("post_assign") or []:
        setattr(getattr(doc, comp), field, value)
    return doc


def lifecycle(doc, forms):
    """the document object is not always the one the constructor returned: copies, pickles and rebuilds of it
    are the same document (selected by the spec's "_forms" number)"""
    import copy
    import pickle
    k = (forms // 7) % 10 if forms else 0
    if k == 2:
        return copy.deepcopy(doc)
    if k == 3:
        return copy.copy(doc)
    if k == 4:
        return doc.model_copy()
    if k == 5:
        return doc.model_copy(deep=True)
    if k == 6:
        return pickle.loads(pickle.dumps(doc))
    if k == 7:
        return type(doc)(**{f: getattr(doc, f) for f in type(doc).model_fields})
    return doc


def build(spec, tmpdir=None):
    """"prior": [spec, ...] - documents built (from one pool of component objects, see _Pooled) and encoded
    before this one in the same process; what they raise is their own business"""
    import rtflite as rtf
    pool = None
    if spec.get("prior"):
        import contextlib
        import io
        pool = {}
        for p in spec["prior"]:
            try:
                d = rtf.RTFDocument(**build_components(p, tmpdir, pool))
                with contextlib.redirect_stdout(io.StringIO()):
                    d.rtf_encode()
            except Exception:  # noqa
                pass
    doc = rtf.RTFDocument(**build_components(spec, tmpdir, pool))
    return apply_post(lifecycle(doc, spec.get("_forms", 0)), spec)


def strip_meta(spec):
    if isinstance(spec, dict):
        return {k: strip_meta(v) for k, v in spec.items() if not k.startswith("_") or k == "_forms"}
    if isinstance(spec, list):
        return [strip_meta(v) for v in spec]
    return spec
