"""C05 - every data row sits under its own group heading on its own page.

Oracle: per parsed page, the sequence of heading rows (single full-width cell)
and tagged data rows must equal the sequence an independent walker regenerates
from the input keys and the observed page membership of the rows; with
subline_by every page carries, before its first table row, the paragraph naming
the single group it contains.
"""
from __future__ import annotations

import itertools
import random

from .. import expect as E
from .. import gen as G
from .. import harness as H
from .. import reader as R
from ..spec import strip_meta

PID = "C05"
LEVEL = "exploration"
RULE = ("sorted (hierarchically contiguous) group-key sequences with 1..3 page_by levels and/or 1..2 subline_by "
        "columns; exhaustive part: 1 level, all compositions of n<=9 rows into runs, x nrow 3..8 x header on/off, and "
        "2 levels with all (outer,inner) run patterns of n<=6; random part: run lengths relative to capacity, nrow "
        "3..30, new_page on/off with pageby_row first_row, pageby_header on/off, column headers default/none/"
        "explicit, one '-----' divider group at any position. non-trivial = a group continues across a page break or "
        ">=2 headings on a page; distinct by spec hash")
ASSUMPTIONS = ["spanning mode only (page_by present and not new_page with pageby_row='column')",
               "keys are contiguous per level (sorted input), as the quantifier says"]
DECIDING = ["docs_parsed", "pages_walked", "headings_matched", "continuation_headings_seen", "divider_docs",
            "subline_pages_checked"]
FLOOR = {"quick": 1500, "thorough": 25000}
EXHAUSTIVE_NOTE = {"quick": "1 level: all run compositions of n<=7 x nrow{3,4,6} x header on/off; 2 levels: n<=5",
                   "thorough": "1 level: all run compositions of n<=9 x nrow 3..8 x header on/off; 2 levels: n<=6 x nrow{3,5,8}"}


def compositions(n):
    """all ways to write n as an ordered sum of positive integers"""
    for mask in range(1 << (n - 1)):
        runs, cur = [], 1
        for i in range(n - 1):
            if mask >> i & 1:
                runs.append(cur); cur = 1
            else:
                cur += 1
        runs.append(cur)
        yield runs


def enum_cases(tier):
    out = []
    n1 = 7 if tier == "quick" else 9
    nrows1 = [3, 4, 6] if tier == "quick" else [3, 4, 5, 6, 7, 8]
    for n in range(1, n1 + 1):
        for runs in compositions(n):
            for nrow in nrows1:
                for hdr in ("none", "default"):
                    out.append({"levels": 1, "runs": [runs], "nrow": nrow, "hdr": hdr})
    n2 = 5 if tier == "quick" else 6
    nrows2 = [3, 5] if tier == "quick" else [3, 5, 8]
    for n in range(2, n2 + 1):
        for outer in compositions(n):
            # inner runs refine the outer runs
            inner_opts = [list(compositions(k)) for k in outer]
            for combo in itertools.product(*inner_opts):
                for nrow in nrows2:
                    out.append({"levels": 2, "runs": [outer, [x for c in combo for x in c]], "nrow": nrow,
                                "hdr": "none"})
    return out


def plan(tier, seed):
    cases = enum_cases(tier)
    k = 10
    descs = [{"kind": "enum", "lo": i, "step": k} for i in range(k)]
    per = 170 if tier == "quick" else 3000
    descs += [{"kind": "random", "n": per} for _ in range(6)]
    return descs


def classify(v):
    return (v.get("detail") or {}).get("mech")


def spec_from_runs(rng, runs_by_level, nrow, hdr, extra_cols=1, page_extra=None):
    n = sum(runs_by_level[0])
    cols = []
    for lvl, runs in enumerate(runs_by_level):
        vals = []
        for k, ln in enumerate(runs):
            vals += [f"G{lvl}v{k}"] * ln
        if lvl > 0:
            # inner labels restart inside every outer group (Visit 1, Visit 2 under each subject)
            outer = cols[lvl - 1]["values"]
            seen: dict = {}
            ren = []
            for r, v in enumerate(vals):
                key = (outer[r], v)
                grp = seen.setdefault(outer[r], {})
                if v not in grp:
                    grp[v] = len(grp)
                ren.append(f"G{lvl}v{grp[v]}")
            vals = ren
        cols.append({"name": f"N{lvl}", "dtype": "str", "values": vals})
    kj = len(cols)
    cols.append({"name": f"N{kj}", "dtype": "str", "values": [f"d{r}c{kj}" for r in range(n)]})
    for e in range(extra_cols):
        dt, vals = G.gen_column(rng, n)
        cols.append({"name": f"N{kj + 1 + e}", "dtype": dt, "values": vals})
    spec = {"kind": "table", "df": {"cols": cols}, "body": {"page_by": [f"N{lvl}" for lvl in range(len(runs_by_level))]},
            "colheader": hdr, "title": None, "page": dict({"nrow": nrow}, **(page_extra or {}))}
    return spec


def walker(keys, divider_ok=True):
    """keys: list of per-page lists of (row, key-tuple) -> expected [("H", text) | ("D", row)] per page"""
    pages = []
    for rows in keys:
        seq = []
        prev = None
        for r, key in rows:
            for lvl in range(len(key)):
                if prev is None or key[:lvl + 1] != prev[:lvl + 1]:
                    if key[lvl] != E.DIVIDER:
                        seq.append(("H", key[lvl]))
            seq.append(("D", r))
            prev = key
        pages.append(seq)
    return pages


def check_spec(ctx, spec):
    case = strip_meta(spec)
    body = spec["body"]
    o = H.build_and_encode(spec)
    if o.stage == "build":
        ctx.count("rejected_at_construction")
        ctx.notes.append(repr(o.exc)[:120])
        return
    if o.stage == "encode":
        ctx.case(case, True)
        info = H.exc_info(o.exc)
        ctx.violation(f"rtf_encode raised {info['exc']} @ {info['where']}", case, info)
        return
    doc = R.parse(o.out)
    ctx.count("docs_parsed")
    names = [c["name"] for c in spec["df"]["cols"]]
    pb = body.get("page_by") or []
    sb = body.get("subline_by") or []
    n = len(spec["df"]["cols"][0]["values"])
    pbkeys = [tuple(spec["df"]["cols"][names.index(c)]["values"][r] for c in pb) for r in range(n)]
    sbkeys = [tuple(spec["df"]["cols"][names.index(c)]["values"][r] for c in sb) for r in range(n)]
    has_div = any(E.DIVIDER in k for k in pbkeys)
    if has_div:
        ctx.count("divider_docs")
    observed = []
    page_rows = []
    seen_rows = []
    extra = E.extra_roles(spec)
    has_null = any(None in k for k in pbkeys)
    if has_null:
        ctx.count("null_level_docs")
    # a null level is "no value" just as the divider is: neither is shown, and a step from one to the other is
    # not a change of value the statement speaks about (its quantifier names divider groups only)
    pbkeys = [tuple(E.DIVIDER if v is None else E.display(v) for v in k) for k in pbkeys]
    sbkeys = [tuple(E.display(v) for v in k) for k in sbkeys]
    for p, pg in enumerate(doc.pages):
        seq = []
        rows = []
        roles = E.page_roles(pg, extra)
        for role, b in roles:
            if role is None:
                txt = getattr(b, "texts", None) or getattr(b, "text", "")
                if b.kind == "row" and len(b.texts) == 1 and b.texts[0] == E.DIVIDER:
                    ctx.violation(f"a heading reads '-----' on page {p + 1}", case, {"page": p})
                else:
                    ctx.violation(f"unclassifiable block on page {p + 1}: {txt!r}", case, {"page": p})
                return
            if role == "heading":
                seq.append(("H", b.texts[0]))
            elif role == "data":
                k = E.data_key(b)
                seq.append(("D", k[0]))
                rows.append((k[0], pbkeys[k[0]]))
                seen_rows.append(k[0])
        observed.append(seq)
        page_rows.append(rows)
        # subline_by heading paragraph
        if sb and rows:
            ctx.count("subline_pages_checked")
            kinds = [r for r, _ in roles]
            first_tbl = next((i for i, (r, b) in enumerate(roles) if b.kind == "row"), len(roles))
            paras = [b.text for r, b in roles[:first_tbl] if r == "subline_by"]
            vals = {sbkeys[r] for r, _ in rows}
            if len(vals) != 1:
                ctx.violation(f"page {p + 1} mixes subline_by groups {sorted(vals)}", case, {"page": p})
            else:
                want = ", ".join(next(iter(vals)))
                if paras != [want]:
                    ctx.violation(f"page {p + 1}: subline heading paragraph {paras!r}, expected [{want!r}] before "
                                  f"the first table row", case, {"page": p, "roles": kinds})
    if seen_rows != list(range(n)):
        ctx.violation("data rows lost or reordered", case, {"seen": seen_rows[:50], "n": n})
        return
    expected = walker(page_rows)
    cont = 0
    multi_h = False
    for p, (exp, got) in enumerate(zip(expected, observed)):
        if has_null:
            # an empty row for a NULL level is neither demanded nor forbidden: such rows are dropped where no
            # heading for an empty-string value is expected at that position
            kept, i = [], 0
            for g in got:
                if g == ("H", "") and not (i < len(exp) and exp[i] == ("H", "")):
                    continue
                kept.append(g)
                i += 1
            got = kept
        ctx.count("pages_walked")
        ctx.count("headings_matched", sum(1 for e in exp if e[0] == "H"))
        if sum(1 for e in exp if e[0] == "H") >= 2:
            multi_h = True
        if p > 0 and page_rows[p] and page_rows[p - 1] and page_rows[p][0][1][:1] == page_rows[p - 1][-1][1][:1] and pb:
            cont += 1
        if exp != got:
            i = next((j for j, (a, b) in enumerate(zip(exp, got)) if a != b), min(len(exp), len(got)))
            ctx.violation(f"page {p + 1}: heading/data sequence differs at position {i}: expected "
                          f"{exp[i] if i < len(exp) else 'end'}, got {got[i] if i < len(got) else 'end'}", case,
                          {"page": p, "expected": [list(e) for e in exp], "got": [list(g) for g in got]})
            break
        if got and got[-1][0] == "H":
            ctx.violation(f"page {p + 1} ends with a stranded heading {got[-1][1]!r}", case, {"page": p})
    ctx.count("continuation_headings_seen", cont)
    ctx.case(case, cont > 0 or multi_h)
    ctx.sample({"pages": len(doc.pages), "page_by": pb, "subline_by": sb, "nrow": spec["page"].get("nrow"),
                "first_pages": [[list(x) for x in s][:8] for s in observed[:2]]}, limit=3)


def multi_spec(rng):
    """multi-section document: every section has its own page_by column (differently named and placed) or none"""
    k = rng.randint(2, 3)
    sections, base = [], 0
    for s_ in range(k):
        n = rng.randint(1, 9)
        grp = rng.random() < 0.8
        df, meta = G.gen_df(rng, n, rng.randint(2, 4), group_cols=1 if grp else 0, row_base=base, maxruns=3,
                            divider_p=0.0, blank_p=0.0)
        base += n
        body = {"page_by": meta["page_by"]} if grp else {}
        sections.append({"df": df, "body": body, "colheader": rng.choice(["default", "none"]), "_meta": meta})
    return {"kind": "multi", "sections": sections, "multi_header": "nested", "title": None,
            "page": {"nrow": rng.randint(4, 12)}}


def check_multi(ctx, spec):
    case = strip_meta(spec)
    o = H.build_and_encode(spec)
    if o.stage == "build":
        ctx.count("rejected_at_construction")
        return
    if o.stage == "encode":
        ctx.case(case, True)
        info = H.exc_info(o.exc)
        ctx.violation(f"rtf_encode raised {info['exc']} @ {info['where']} (multi-section)", case, info)
        return
    doc = R.parse(o.out)
    ctx.count("docs_parsed")
    ctx.count("multi_section_docs")
    sec_of, key_of = {}, {}
    for si, sec in enumerate(spec["sections"]):
        names = [c["name"] for c in sec["df"]["cols"]]
        pb = sec["body"].get("page_by") or []
        n = len(sec["df"]["cols"][0]["values"])
        base = sec["_meta"]["row_base"] if "_meta" in sec else None
        keycol = next(c for c in sec["df"]["cols"] if c["values"] and isinstance(c["values"][0], str)
                      and E.TAG_DATA.fullmatch(c["values"][0])) if n else None
        for r in range(n):
            g = int(E.TAG_DATA.fullmatch(keycol["values"][r]).group(1))
            sec_of[g] = si
            key_of[g] = tuple(sec["df"]["cols"][names.index(c)]["values"][r] for c in pb)
    nontrivial = False
    for p, pg in enumerate(doc.pages):
        got, exp = [], []
        prev = None
        for role, b in E.page_roles(pg):
            if role is None and b.kind == "row":
                ctx.violation(f"unclassifiable row on page {p + 1}: {b.texts!r} (multi-section)", case, {"page": p})
                return
            if role == "heading":
                got.append(("H", b.texts[0]))
            elif role == "data":
                g = E.data_key(b)[0]
                got.append(("D", g))
                cur = (sec_of.get(g), key_of.get(g, ()))
                if cur != prev:
                    for lab in cur[1]:
                        exp.append(("H", lab))
                exp.append(("D", g))
                prev = cur
        ctx.count("pages_walked")
        ctx.count("headings_matched", sum(1 for e in exp if e[0] == "H"))
        nontrivial = nontrivial or sum(1 for e in exp if e[0] == "H") >= 2
        if exp != got:
            i = next((j for j, (a, b) in enumerate(zip(exp, got)) if a != b), min(len(exp), len(got)))
            ctx.violation(f"multi-section page {p + 1}: heading/data sequence differs at position {i}: expected "
                          f"{exp[i] if i < len(exp) else 'end'}, got {got[i] if i < len(got) else 'end'}", case,
                          {"page": p, "expected": [list(e) for e in exp], "got": [list(g) for g in got]})
            break
    ctx.case(case, nontrivial)


def random_spec(rng):
    levels = rng.choice([1, 1, 2, 2, 3])
    sbn = rng.choice([0, 0, 0, 1, 2])
    if rng.random() < 0.15:
        levels = 0
        sbn = rng.choice([1, 2])
    nrow = rng.randint(3, 30)
    n = rng.randint(1, min(70, nrow * 5))
    if rng.random() < 0.08:
        n = rng.randint(100, 280)       # tables of a few hundred rows
    total = levels + sbn
    keys = G.gen_group_keys(rng, n, total, maxruns=rng.choice([2, 3, 4, 6]), reuse_inner=False)
    reuse = rng.random() < 0.6
    cols = []
    for lvl in range(total):
        ren = {}
        scope_count: dict = {}
        vals = []
        for k in keys:
            raw = k[lvl]
            if raw not in ren:
                # inner page_by labels may restart under every parent group
                scope = k[lvl - 1] if (reuse and lvl > sbn) else None
                idx = scope_count.get(scope, 0)
                scope_count[scope] = idx + 1
                ren[raw] = (f"SB{lvl}x{idx}" if lvl < sbn else f"G{lvl - sbn}v{idx}")
            vals.append(ren[raw])
        cols.append({"name": f"N{lvl}", "dtype": "str", "values": vals})
    # one divider group at any position of one page_by level
    if levels and rng.random() < 0.3:
        lvl = sbn + rng.randrange(levels)
        vals = cols[lvl]["values"]
        target = rng.choice(sorted(set(vals)))
        if lvl == sbn or True:
            cols[lvl]["values"] = [E.DIVIDER if v == target else v for v in vals]
    kj = len(cols)
    order = list(range(kj + 1 + rng.randint(0, 2)))
    cols.append({"name": f"N{kj}", "dtype": "str", "values": [f"d{r}c{kj}" for r in range(n)]})
    for e in range(len(order) - kj - 1):
        dt, vals = G.gen_column(rng, n)
        cols.append({"name": f"N{kj + 1 + e}", "dtype": dt, "values": vals})
    # shuffle physical column order (names keep their meaning)
    rng.shuffle(cols)
    # the key tag must name its physical position
    for j, c in enumerate(cols):
        if c["values"] and isinstance(c["values"][0], str) and E.TAG_DATA.fullmatch(c["values"][0] or ""):
            c["values"] = [f"d{r}c{j}" for r in range(n)]
    body = {}
    if levels:
        body["page_by"] = [f"N{sbn + lvl}" for lvl in range(levels)]
        if rng.random() < 0.3:
            body["new_page"] = True
            body["pageby_row"] = "first_row"
        elif rng.random() < 0.25:
            body["pageby_row"] = "first_row"      # without new_page: must change nothing
    if sbn:
        body["subline_by"] = [f"N{lvl}" for lvl in range(sbn)]
    if rng.random() < 0.4:
        body["pageby_header"] = rng.random() < 0.5
    if rng.random() < (0.6 if n >= 100 else 0.25):
        # group values off the sentinel scheme: falsy numbers (0, 0.0, False), spellings next to the divider,
        # labels that differ by blanks only
        gcols = [c for c in cols if c["name"] in set(body.get("page_by") or []) | set(body.get("subline_by") or [])]
        c = rng.choice(gcols) if gcols else None
        if c is not None:
            labels = sorted(set(c["values"]))
            kind = rng.choice(["int", "float", "bool", "neardiv", "blanks", "null", "null", "floatx", "floatx",
                               "empty"])
            if E.DIVIDER in labels and c["name"] in (body.get("page_by") or []) and rng.random() < 0.5:
                kind = "empty"
            if kind == "int":
                m = {v: i for i, v in enumerate(labels)}
                c["dtype"], c["values"] = "int", [m[v] for v in c["values"]]
            elif kind == "float":
                m = {v: i * 0.5 for i, v in enumerate(labels)}
                c["dtype"], c["values"] = "float", [m[v] for v in c["values"]]
            elif kind == "bool" and len(labels) <= 2:
                m = {v: bool(i) for i, v in enumerate(labels)}
                c["dtype"], c["values"] = "bool", [m[v] for v in c["values"]]
            elif kind == "neardiv":
                alt = ["----- ", " -----", "------", "----", "- - -"]
                m = {v: (alt[i % len(alt)] if i < 2 else v) for i, v in enumerate(rng.sample(labels, len(labels)))}
                c["values"] = [m[v] for v in c["values"]]
            elif kind == "floatx" and E.DIVIDER not in labels:
                # a Float key column with NaN, the infinities and -0.0 among its values
                G.float_keys(rng, c)
            elif kind == "empty" and c["name"] in (body.get("page_by") or []):
                # the empty string is a value like any other (next to a divider group in particular)
                t = rng.choice([x for x in labels if x != E.DIVIDER] or labels)
                vs = c["values"]
                nxt = [vs[i] for i in range(len(vs) - 1) if vs[i + 1] == E.DIVIDER and vs[i] != E.DIVIDER]
                if nxt and rng.random() < 0.7:
                    t = nxt[0]          # the group right in front of a divider group
                c["values"] = ["" if v == t else v for v in c["values"]]
            elif kind == "null" and c["name"] in (body.get("page_by") or []):
                # one level value is missing (null) in one group, at any position
                t = rng.choice(labels)
                c["values"] = [None if v == t else v for v in c["values"]]
            elif kind == "blanks" and len(labels) >= 2:
                a = labels[0]
                m = {labels[0]: a, labels[1]: a + " "}
                c["values"] = [m.get(v, v) for v in c["values"]]
    G.retype_keys(rng, cols, set(body.get("page_by") or []) | set(body.get("subline_by") or []))
    spec = {"kind": "table", "df": {"cols": cols}, "body": body, "title": None, "page": {"nrow": nrow}}
    ndisp = len(E.displayed_columns(spec["df"], body))
    spec["colheader"] = G.gen_colheader(rng, ndisp, mode=rng.choice(["default", "none", "explicit"]), rich=0.0)
    if rng.random() < 0.3:
        spec["footnote"] = {"text": "FN0", "as_table": rng.random() < 0.5}
    if rng.random() < 0.2:
        spec["title"] = {"text": "TT0"}
    return spec


def adjacent_spec(rng):
    """two page_by levels; the outer one steps through values that show nothing or next to nothing - the empty
    string, the divider, null - and ordinary labels, in every order, while the inner value stays the same or
    changes: every step is a new group (null and the divider alike excepted, see check_spec)"""
    pool = ["", E.DIVIDER, None, "G0v0", "G0v1", "0"]
    seq, prev = [], object()
    for _ in range(rng.randint(2, 5)):
        v = rng.choice([x for x in pool if x != prev and not ({x, prev} == {None, E.DIVIDER})])
        seq.append(v)
        prev = v
    outer, inner = [], []
    for v in seq:
        ln = rng.randint(1, 3)
        outer += [v] * ln
        iv = rng.choice(["G1v0", "G1v0", "G1v1"])
        inner += [iv] * ln
    n = len(outer)
    cols = [{"name": "N0", "dtype": "str", "values": outer}, {"name": "N1", "dtype": "str", "values": inner},
            {"name": "N2", "dtype": "str", "values": [f"d{r}c2" for r in range(n)]}]
    body = {"page_by": ["N0", "N1"]}
    if rng.random() < 0.3:
        body["pageby_header"] = rng.random() < 0.5
    return {"kind": "table", "df": {"cols": cols}, "body": body, "title": None,
            "page": {"nrow": rng.choice([40, 40, 12, 7])}, "colheader": rng.choice(["none", "default"])}


def run_shard(desc, ctx):
    rng = random.Random(desc["seed"])
    if desc["kind"] == "enum":
        for c in enum_cases(desc["tier"])[desc["lo"]::desc["step"]]:
            ctx.count("enumerated_cases")
            check_spec(ctx, spec_from_runs(rng, c["runs"], c["nrow"], c["hdr"], extra_cols=rng.randint(0, 1)))
    else:
        for _ in range(desc["n"]):
            check_spec(ctx, random_spec(rng))
        for _ in range(max(10, desc["n"] // 6)):
            check_multi(ctx, multi_spec(rng))
        for _ in range(max(20, desc["n"] // 4)):
            ctx.count("adjacent_no_value_groups_docs")
            check_spec(ctx, adjacent_spec(rng))


def replay(data, ctx):
    if data["case"].get("kind") == "multi":
        check_multi(ctx, data["case"])
    else:
        check_spec(ctx, data["case"])
