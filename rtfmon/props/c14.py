"""C14 - encoding is a pure function of the document.

Offline checker over recorded encode histories.  Every history (prior
operations on pool documents, then the target) runs in a forked child of a
parent that has imported rtflite but never encoded; the target's string is
compared with the string the same spec yields in a FRESH interpreter (one
subprocess per pool document, computed once per run from the working tree).
"""
from __future__ import annotations

import contextlib
import io
import itertools
import json
import os
import random
import select
import shutil
import subprocess
import sys
import tempfile

from .. import gen as G
from .. import spec as S

PID = "C14"
LEVEL = "exploration"
# histories run in forked children: the parent must not have started polars' threads (a fork would copy their
# locks), and failing calls are part of the histories themselves here
PROVOKE_FAILURES = False
RULE = ("histories = sequence of 0..4 prior operations {construct, encode, encode twice} on documents of a "
        "~30-document pool (plain 3/5 columns, coloured, paginated, page_by, subline_by, grouped, raising "
        "ValueError, multi-section x2, figure, explicit/inherited headers, near twins sharing border colours / "
        "texts under other palettes and sizes, 12-13 colour palettes, explicit 'black'), optionally sharing every "
        "equal-valued component object (page, body, header, title, footnote, source) with an earlier document, "
        "followed by constructing and encoding a target; all histories of length <=1 (quick) / <=2 (thorough) "
        "enumerated, longer ones sampled; plus edit histories: the target object is built and encoded with other "
        "texts, its text components are then edited in place to the pool values and it is encoded again; and derive "
        "histories: an encoded predecessor (other texts, conversion, paper, data) is turned into the pool document "
        "with model_copy(update=...) on the document and every component. non-trivial = >=1 prior operation; distinct by history hash")
ASSUMPTIONS = ["a fresh `python -c` interpreter importing rtflite from the working tree defines the reference output",
               "sharing is only exercised between documents whose shared component has equal user-given values"]
DECIDING = ["histories_run", "targets_compared", "encodes_observed", "df_snapshots_compared",
            "fresh_interpreter_baselines", "shared_component_histories", "after_failed_encode_histories",
            "edit_in_place_histories", "derived_with_model_copy_histories"]
FLOOR = {"quick": 1500, "thorough": 20000}
EXHAUSTIVE_NOTE = {"quick": "all histories of length <=1 (pool docs x 3 ops x pool targets x sharing on/off); all edit histories of length <=1",
                   "thorough": "all histories of length <=1 over the whole pool (sharing on/off), all histories of length 2 "
                               "over the 19 core documents with sharing off, all edit histories"}
OPS = ["new", "enc", "enc2"]
COMPONENTS = ["page", "body", "colheader", "title", "subline", "footnote", "source", "page_header", "page_footer"]


def tagged(n, nc, base=0, extra=None):
    cols = [{"name": f"N{j}", "dtype": "str", "values": [f"d{base + r}c{j}" for r in range(n)]} for j in range(nc)]
    if extra:
        cols.extend(extra)
    return {"cols": cols}


def pool():
    rng = random.Random(1234)
    P = {}
    FN = {"text": "FN0"}
    TT = {"text": "TT0"}
    P["plain3"] = {"kind": "table", "df": tagged(4, 3), "body": {}, "colheader": [{}], "title": TT, "footnote": FN}
    P["plain5"] = {"kind": "table", "df": tagged(4, 5), "body": {}, "colheader": [{}], "title": TT, "footnote": FN}
    # components whose defaults are EXPANDED by the constructor: a single-element width list is
    # broadcast to the frame's column count, a header without widths inherits the body's
    P["w1_3"] = {"kind": "table", "df": tagged(3, 3), "body": {"col_rel_width": [1]}, "colheader": [{}], "title": TT}
    P["w1_5"] = {"kind": "table", "df": tagged(3, 5), "body": {"col_rel_width": [1]}, "colheader": [{}], "title": TT}
    P["w2_2"] = {"kind": "table", "df": tagged(2, 2), "body": {"col_rel_width": [2.5]}, "colheader": "none",
                 "title": TT}
    # one-column tables: every default attribute grid ([[""]]) already has the shape of a one-row page
    P["c1r5"] = {"kind": "table", "df": tagged(5, 1), "body": {}, "page": {"nrow": 4}, "colheader": "none", "title": None}
    P["c1r1"] = {"kind": "table", "df": tagged(1, 1), "body": {}, "colheader": "none", "title": None}
    P["c2r3"] = {"kind": "table", "df": tagged(3, 2), "body": {}, "colheader": "none", "title": None}
    P["hdr3"] = {"kind": "table", "df": tagged(3, 3), "body": {}, "colheader": [{"text": ["H0c0", "H0c1", "H0c2"]}],
                 "title": TT}
    P["hdr3w"] = {"kind": "table", "df": tagged(3, 3), "body": {"col_rel_width": [1, 2, 3]},
                  "colheader": [{"text": ["H0c0", "H0c1", "H0c2"]}], "title": TT}
    P["col_a"] = {"kind": "table", "df": tagged(3, 3), "body": {"text_color": ["red", "blue", "gold"]},
                  "title": {"text": "TT0", "text_color": "darkgreen"}, "footnote": {"text": "FN0", "text_color": "blue"}}
    P["col_b"] = {"kind": "table", "df": tagged(3, 2), "body": {"text_background_color": "yellow",
                                                                "text_color": [["orange", "purple"]]},
                  "title": {"text": "TT0", "text_color": "aquamarine"}}
    P["paged"] = {"kind": "table", "df": tagged(20, 3), "body": {}, "page": {"nrow": 6},
                  "title": TT, "footnote": FN, "source": {"text": "SR0"}}
    P["pageby"] = {"kind": "table", "page": {"nrow": 6},
                   "df": tagged(12, 2, extra=[{"name": "N2", "dtype": "str",
                                               "values": ["G0v0"] * 5 + ["G0v1"] * 7}]),
                   "body": {"page_by": ["N2"], "text_color": "red"}}
    P["subline"] = {"kind": "table",
                    "df": tagged(8, 2, extra=[{"name": "N2", "dtype": "str", "values": ["SB0x0"] * 3 + ["SB0x1"] * 5}]),
                    "body": {"subline_by": ["N2"]}, "title": TT}
    P["grouped"] = {"kind": "table", "page": {"nrow": 5},
                    "df": tagged(9, 2, extra=[{"name": "N2", "dtype": "str", "values": ["a"] * 4 + ["b"] * 5}]),
                    "body": {"group_by": ["N2"]}}
    P["raising"] = {"kind": "table",
                    "df": tagged(6, 2, extra=[{"name": "N2", "dtype": "str", "values": ["a", "b", "a", "b", "a", "c"]}]),
                    "body": {"group_by": ["N2"], "text_color": "red"}, "title": {"text": "TT0", "text_color": "blue"},
                    "_raises": True}
    P["multi_a"] = {"kind": "multi", "multi_header": "nested", "footnote": FN, "title": TT,
                    "sections": [{"df": tagged(3, 3), "body": {"text_color": "red"}, "colheader": "default"},
                                 {"df": tagged(2, 3, base=3), "body": {"text_color": "navy"}, "colheader": "none"}]}
    P["multi_b"] = {"kind": "multi", "multi_header": "nested", "source": {"text": "SR0", "text_color": "tomato"},
                    "sections": [{"df": tagged(2, 2), "body": {}, "colheader": "default"},
                                 {"df": tagged(3, 4, base=2), "body": {"text_background_color": "khaki"},
                                  "colheader": "default"}]}
    P["figure"] = {"kind": "figure", "figure": {"files": [G.gen_figure_file(rng, 0, "png"),
                                                          G.gen_figure_file(rng, 1, "jpeg")], "kw": {}},
                   "title": {"text": "TT0", "text_color": "red"},
                   "footnote": {"text": "FN0", "as_table": False, "text_color": "blue"}}
    P["land"] = {"kind": "table", "df": tagged(5, 4), "body": {"text_font_size": 8, "border_top": "dashed"},
                 "page": {"orientation": "landscape", "nrow": 4, "border_first": "thick"},
                 "page_header": {}, "page_footer": {"text": "PF0"}, "footnote": FN}
    P["empty"] = {"kind": "table", "df": tagged(0, 2), "body": {}, "title": TT, "footnote": FN}
    # near twins: the same attribute VALUES in documents whose palettes / fonts / sizes differ, so that a
    # result memoised per value (and not per document) by an earlier encode is wrong for the later one
    P["bcol_a"] = {"kind": "table", "df": tagged(3, 2), "body": {"border_top": "single", "border_color_top": "red",
                                                                 "border_color_left": "tomato"}, "title": TT}
    P["bcol_b"] = {"kind": "table", "df": tagged(3, 2), "body": {"border_top": "single", "border_color_top": "red",
                                                                 "border_color_left": "tomato", "text_color": "blue"},
                   "title": {"text": "TT0", "text_color": "aliceblue"}}
    P["col_a2"] = {"kind": "table", "df": tagged(3, 3), "body": {"text_color": ["red", "blue", "gold"]},
                   "title": {"text": "TT0", "text_color": "darkgreen", "text_background_color": "aliceblue"},
                   "footnote": {"text": "FN0", "text_color": "blue"}}
    # palettes with a two-digit number of colours
    palA = ["red", "blue", "gold", "tomato", "navy", "khaki", "orchid", "peru", "plum", "salmon", "sienna", "turquoise"]
    palB = ["azure", "beige", "coral", "cyan", "gray", "green", "ivory", "linen", "maroon", "tan", "pink", "wheat", "violet"]
    P["pal12_a"] = {"kind": "table", "df": tagged(3, 4), "body": {"text_color": [palA[0:4], palA[4:8], palA[8:12]]},
                    "title": {"text": "TT0", "text_color": "red"}}
    P["pal12_b"] = {"kind": "table", "df": tagged(3, 4), "body": {"text_color": [palB[0:4], palB[4:8], palB[8:12]],
                                                                  "text_background_color": palB[12]},
                    "footnote": {"text": "FN0", "text_color": "coral"}}
    # a multi-section document whose SECOND section fails to encode, and two documents with an equal-valued
    # page component (shared with it in the sharing histories)
    PG = {"border_first": "double", "border_last": "double", "nrow": 30}
    P["multi_raising"] = {"kind": "multi", "multi_header": "nested", "page": dict(PG), "title": TT, "_raises": True,
                          "sections": [{"df": tagged(3, 2), "body": {}, "colheader": "default"},
                                       {"df": tagged(4, 2, base=3, extra=[{"name": "N2", "dtype": "str",
                                                                            "values": ["a", "b", "a", "b"]}]),
                                        "body": {"group_by": ["N2"]}, "colheader": "default"}]}
    P["pg_dbl"] = {"kind": "table", "df": tagged(4, 2), "body": {}, "page": dict(PG), "title": TT, "footnote": FN}
    P["multi_dbl"] = {"kind": "multi", "multi_header": "nested", "page": dict(PG), "title": TT,
                      "sections": [{"df": tagged(2, 2), "body": {}, "colheader": "default"},
                                   {"df": tagged(2, 3, base=2), "body": {}, "colheader": "default"}]}
    # the same graded texts at 9pt and at 9.2pt (sizes that a half-point key cannot tell apart): rows whose text
    # ends within a couple of per cent of a wrap boundary paginate differently at the two sizes
    graded = {"name": "N2", "dtype": "str",
              "values": [("lorem ipsum dolor sit amet consectetur adipiscing elit sed do eiusmod tempor " * 3)[:n]
                         for n in range(20, 140, 2)]}
    for nm, sz in (("graded_s9", 9), ("graded_s92", 9.2), ("graded_s87", 8.7)):
        P[nm] = {"kind": "table", "df": tagged(60, 2, extra=[graded]), "title": TT,
                 "body": {"text_font_size": sz, "col_rel_width": [1, 1, 2.2]}, "page": {"nrow": 14}}
    # fails while encoding, inside the colour lookup (the palette is made invalid after construction)
    P["badcolor"] = {"kind": "table", "df": tagged(3, 3), "body": {"text_color": ["red", "blue", "gold"]},
                     "title": {"text": "TT0", "text_color": "darkgreen"}, "_raises": True,
                     "post_assign": [["rtf_body", "text_color", [["red", "notacolour", "blue"]]]]}
    # one body (page_by removes a column, text_convert recycles row-wise with period 3) for tables of different
    # heights holding conversion triggers: whatever an encode derives from the body must not be kept ON the body
    PBC = {"page_by": ["N2"], "text_convert": [[True], [False], [False]]}
    for nm, n in (("pbc_a", 4), ("pbc_b", 10)):
        P[nm] = {"kind": "table", "body": dict(PBC), "title": TT, "colheader": "none",
                 "df": tagged(n, 1, extra=[{"name": "N1", "dtype": "str", "values": ["a_b >= 3 x^2"] * n},
                                           {"name": "N2", "dtype": "str",
                                            "values": ["G0v0"] * (n // 2) + ["G0v1"] * (n - n // 2)}])}
    P["pbc_m"] = {"kind": "multi", "multi_header": "nested", "title": TT, "share_section_bodies": True,
                  "sections": [{"df": P["pbc_a"]["df"], "body": dict(PBC), "colheader": "none"},
                               {"df": P["pbc_b"]["df"], "body": dict(PBC), "colheader": "none"}]}
    # three-section documents on different paper (a section that is neither the first nor the last)
    for nm, pg in (("multi3_p", {"col_width": 6.0}), ("multi3_l", {"orientation": "landscape", "col_width": 9.0})):
        P[nm] = {"kind": "multi", "multi_header": "nested", "title": TT, "page": pg,
                 "sections": [{"df": tagged(2, 2), "body": {}, "colheader": "default"},
                              {"df": tagged(3, 3, base=2), "body": {}, "colheader": "default"},
                              {"df": tagged(2, 2, base=5), "body": {}, "colheader": "none"}]}
    # column names whose lists run together ambiguously when joined with ", " (auto-derived header rows)
    for nm, names2 in (("names_a", ["Placebo, n", "%"]), ("names_b", ["Placebo", "n, %"])):
        P[nm] = {"kind": "table", "title": TT, "body": {},
                 "df": {"cols": [{"name": names2[0], "dtype": "str", "values": ["d0c0", "d1c0"]},
                                 {"name": names2[1], "dtype": "str", "values": ["d0c1", "d1c1"]}]}}
    # a title whose lines have colours of their own
    P["title_vec"] = {"kind": "table", "df": tagged(3, 2), "body": {"text_color": "gold"},
                      "title": {"text": ["TT0", "TT1", "TT2"], "text_color": ["red", "blue", "darkgreen"],
                                "text_background_color": ["", "khaki", ""]},
                      "page_footer": {"text": ["PF0", "PF1"], "text_color": ["navy", "tomato"]}}
    # constant / duplicated cell texts (the same string is measured again right after itself), wrapped and paginated
    LONGT = "lorem ipsum dolor sit amet consectetur adipiscing elit sed do eiusmod tempor incididunt ut labore " * 2
    P["const_a"] = {"kind": "table", "page": {"nrow": 8}, "title": TT, "body": {"col_rel_width": [1, 3]},
                    "df": tagged(10, 1, extra=[{"name": "N1", "dtype": "str",
                                                "values": ["x", LONGT] * 5}])}
    P["const_b"] = {"kind": "table", "page": {"nrow": 8}, "title": TT, "body": {"col_rel_width": [1, 3]},
                    "df": tagged(10, 1, extra=[{"name": "N1", "dtype": "str", "values": [LONGT] * 10}])}
    # the default colour spelled out ("black") next to real colours
    P["blk_a"] = {"kind": "table", "df": tagged(3, 3), "body": {"text_color": ["black", "red", "black"],
                                                                "text_background_color": [["", "black", "wheat"]]},
                  "title": {"text": "TT0", "text_color": "black"}}
    long_text = {"name": "N3", "dtype": "str", "values": ["lorem ipsum dolor sit amet consectetur " * 2] * 20}
    P["paged_s8"] = {"kind": "table", "df": tagged(20, 3, extra=[long_text]), "body": {"text_font_size": 8},
                     "page": {"nrow": 12}, "title": TT, "footnote": FN}
    P["paged_s14"] = {"kind": "table", "df": tagged(20, 3, extra=[long_text]), "body": {"text_font_size": 14, "text_font": 4},
                      "page": {"nrow": 12}, "title": TT, "footnote": FN}
    # one table-rendered source / footnote (with borders of their own) used by several documents: an ordinary one,
    # one without rows, one whose page closes with no border at all
    SRT = {"text": "SR0", "as_table": True, "border_bottom": "dashed"}
    FNT = {"text": ["FN0", "FN1"], "as_table": True, "border_bottom": [["", "dotted"]]}
    P["tsrc_3"] = {"kind": "table", "df": tagged(3, 2), "body": {}, "title": TT, "source": SRT, "footnote": FNT}
    P["tsrc_0"] = {"kind": "table", "df": tagged(0, 2), "body": {}, "title": TT, "source": SRT, "footnote": FNT}
    P["tsrc_nb"] = {"kind": "table", "df": tagged(2, 2), "body": {}, "title": TT, "source": SRT,
                    "page": {"border_last": "", "border_first": ""}}
    return P


POOL = pool()
NAMES = sorted(POOL)
TEXT_COMPONENTS = ["title", "subline", "footnote", "source", "page_header", "page_footer"]


def edited_variant(spec):
    """the same document with other texts / text attributes in its text components: what the document object
    looks like BEFORE its components are edited in place into the pool document's values"""
    import copy
    v = copy.deepcopy(spec)
    touched = False
    for k in TEXT_COMPONENTS:
        c = v.get(k)
        if isinstance(c, dict) and c.get("text"):
            t = c["text"]
            c["text"] = ["ALT " + x + " x^2 >= y_1" for x in t] if isinstance(t, list) else "ALT " + t + " x^2 >= y_1"
            c["text_convert"] = not c.get("text_convert", k in ("title", "footnote", "source"))
            c["text_color"] = "orchid" if c.get("text_color") != "orchid" else "peru"
            c["text_font_size"] = 13
            touched = True
    return v if touched else None


EDITS = {n: edited_variant(POOL[n]) for n in NAMES}
EDITS = {n: v for n, v in EDITS.items() if v is not None}


def derived_from(spec):
    """a predecessor of the pool document: other texts, other conversion setting, other paper, other data (all
    grouping values equal, so it always encodes).  The pool document is then DERIVED from the encoded
    predecessor with model_copy(update=...) on the document and on each component."""
    import copy
    v = edited_variant(spec) or copy.deepcopy(spec)
    v.pop("post_assign", None)
    v.pop("_raises", None)
    for k in TEXT_COMPONENTS:
        # the predecessor's texts are coloured only where the pool document's are
        if isinstance(v.get(k), dict) and isinstance(spec.get(k), dict) and "text_color" not in spec[k]:
            v[k].pop("text_color", None)

    def other_df(dfs):
        for c in dfs["cols"]:
            if c["dtype"] != "str":
                continue
            if c["values"] and isinstance(c["values"][0], str) and c["values"][0][:1] == "d" and "c" in c["values"][0]:
                c["values"] = [f"d{900 + r}c{c['values'][0].split('c')[-1]}" for r in range(len(c["values"]))]
            else:
                c["values"] = ["zz"] * len(c["values"])

    def other_body(b):
        if not isinstance(b.get("text_convert"), list):
            b["text_convert"] = not b.get("text_convert", True)
        # visible in every cell
        b.setdefault("text_format", "bi")
        b.setdefault("text_justification", "r")

    if v.get("kind", "table") == "table":
        other_df(v["df"])
        other_body(v.setdefault("body", {}))
    elif v.get("kind") == "multi":
        for sec in v["sections"]:
            sec["df"] = copy.deepcopy(sec["df"])
            other_df(sec["df"])
            sec["body"] = dict(sec.get("body", {}))
            other_body(sec["body"])
    v["page"] = dict(v.get("page", {}), width=7.5, height=10.0, margin=[0.8, 0.9, 1.0, 1.1, 0.6, 0.7])
    return v


DERIVS = {n: derived_from(POOL[n]) for n in NAMES}


# ---------------------------------------------------------------- baselines

BASELINE_SNIPPET = r"""
import sys, json, io, contextlib, tempfile
sys.path.insert(0, sys.argv[1]); sys.path.insert(0, sys.argv[2])
from rtfmon import spec as S
spec = json.load(open(sys.argv[3]))
td = tempfile.mkdtemp(prefix="rtfmon-c14b-")
try:
    d = S.build(spec, td)
    with contextlib.redirect_stdout(io.StringIO()):
        out = d.rtf_encode()
    res = {"ok": True, "out": out}
except Exception as e:
    res = {"ok": False, "exc": type(e).__name__, "msg": str(e)[:200]}
import shutil; shutil.rmtree(td, ignore_errors=True)
json.dump(res, open(sys.argv[4], "w"))
"""


def fresh_baselines():
    """one fresh interpreter per pool document (run in parallel)"""
    from ..run import HERE, REPO, PY
    td = tempfile.mkdtemp(prefix="rtfmon-c14base-")
    procs = []
    # "a fresh interpreter" means any fresh interpreter: the reference runs under another string-hash seed than
    # the histories (PYTHONHASHSEED=0), and a second reference under a third seed has to agree with it
    for name in NAMES:
        sp = os.path.join(td, name + ".json")
        json.dump(S.strip_meta(POOL[name]), open(sp, "w"))
        for tag, hs in (("", "4242"), (".alt", "977")):
            env = dict(os.environ, PYTHONHASHSEED=hs, POLARS_MAX_THREADS="1")
            op = os.path.join(td, name + tag + ".out.json")
            p = subprocess.Popen([PY, "-c", BASELINE_SNIPPET, HERE, os.path.join(REPO, "src"), sp, op], env=env,
                                 stdout=subprocess.DEVNULL, stderr=subprocess.PIPE)
            procs.append((name + tag, p, op))
    out = {}
    for name, p, op in procs:
        try:
            _, err = p.communicate(timeout=180)
            out[name] = json.load(open(op))
        except Exception as e:  # noqa
            out[name] = {"ok": False, "exc": "BaselineFailed", "msg": repr(e)[:200]}
    for name in NAMES:
        alt = out.pop(name + ".alt")
        if alt != out[name]:
            out[name]["hash_seed_dependent"] = True
    shutil.rmtree(td, ignore_errors=True)
    return out


# ---------------------------------------------------------------- histories

def shareable(a, b):
    sa, sb = POOL[a], POOL[b]
    if sa.get("kind", "table") != "table" or sb.get("kind", "table") != "table":
        # text components can still be shared across kinds
        keys = ["title", "subline", "footnote", "source", "page_header", "page_footer", "page"]
    else:
        keys = COMPONENTS
    out = []
    for k in keys:
        if k in sa and k in sb and sa[k] == sb[k] and isinstance(sa[k], (dict, list)) and sa[k] not in ("default", "none"):
            out.append(k)
    return out


# documents whose histories of length 2 are enumerated completely in the thorough tier (the whole pool would
# give 40 x (120)^2 histories); every other document takes part at length <= 1 and in the sampled histories
CORE = ["plain3", "plain5", "w1_3", "w1_5", "col_a", "col_b", "paged", "pageby", "subline", "grouped", "raising",
        "multi_a", "figure", "land", "bcol_a", "bcol_b", "badcolor", "multi_raising", "pg_dbl"]


def all_histories(maxlen, share_modes=(False, True), names=None):
    names = names or NAMES
    steps = [(n, op) for n in names for op in OPS]
    for L in range(0, maxlen + 1):
        for prior in itertools.product(steps, repeat=L):
            for tgt in names:
                for sh in share_modes:
                    if sh and not any(shareable(p[0], tgt) for p in prior):
                        continue
                    yield {"prior": [list(p) for p in prior], "target": tgt, "share": sh}


def edit_histories():
    """the target object is first built and encoded with other texts, then its text components are edited in
    place (nested attribute assignment) to the pool document's values"""
    for tgt in sorted(EDITS):
        for op in ("enc", "enc2"):
            yield {"prior": [], "target": tgt, "share": False, "edit": op}
        yield {"prior": [[tgt, "enc"]], "target": tgt, "share": False, "edit": "enc"}


def derive_histories():
    for tgt in NAMES:
        for op in ("enc", "enc2"):
            yield {"prior": [], "target": tgt, "share": False, "edit": op, "how": "derive"}


def random_history(rng):
    if rng.random() < 0.08:
        L = rng.choice([0, 1])
        return {"prior": [[rng.choice(NAMES), rng.choice(OPS)] for _ in range(L)], "target": rng.choice(NAMES),
                "share": False, "edit": rng.choice(["enc", "enc2", "new"]), "how": "derive"}
    if rng.random() < 0.12:
        L = rng.choice([0, 1, 2])
        return {"prior": [[rng.choice(NAMES), rng.choice(OPS)] for _ in range(L)], "target": rng.choice(sorted(EDITS)),
                "share": False, "edit": rng.choice(["enc", "enc2", "new"])}
    L = rng.choice([2, 3, 3, 4, 4])
    prior = [[rng.choice(NAMES), rng.choice(OPS)] for _ in range(L)]
    if rng.random() < 0.5:
        prior[rng.randrange(L)] = ["raising", rng.choice(["enc", "enc2"])]
    tgt = rng.choice(NAMES)
    if rng.random() < 0.4 and tgt in ("plain3", "plain5", "empty", "hdr3", "paged"):
        prior[rng.randrange(L)] = [rng.choice(["plain3", "plain5", "paged", "multi_a", "empty"]), rng.choice(OPS)]
    return {"prior": prior, "target": tgt, "share": rng.random() < 0.5}


def plan(tier, seed):
    base = fresh_baselines()
    if tier == "quick":
        enum = list(all_histories(1)) + list(edit_histories()) + list(derive_histories())
        nrand = 800
    else:
        enum = list(all_histories(1)) + [h for h in all_histories(2, share_modes=(False,), names=CORE)
                                         if len(h["prior"]) == 2]
        enum += list(edit_histories()) + list(derive_histories())
        nrand = 40000
    k = 16
    descs = []
    for i in range(k):
        descs.append({"enum": enum[i::k], "nrand": nrand // k, "baselines": base, "timeout": 1800 if tier == "quick" else 5400})
    return descs


def classify(v):
    return (v.get("detail") or {}).get("mech")


# ---------------------------------------------------------------- execution of one history (child)

def run_history(h, baselines):
    """-> dict(events=[...], problems=[...]) ; runs inside a forked child"""
    import polars as pl  # noqa
    from rtflite.services.color_service import color_service
    import rtflite as rtf
    problems = []
    counts = {"encodes": 0, "df_cmp": 0}
    td = tempfile.mkdtemp(prefix="rtfmon-c14h-")
    built = []   # (name, kwargs, doc)

    def ctx_state():
        return getattr(color_service, "_current_document_colors", None)

    def snapshot(doc):
        dfs = doc.df if isinstance(doc.df, list) else ([doc.df] if doc.df is not None else [])
        return [(d.clone(), dict(d.schema)) for d in dfs]

    def same_frames(doc, snap):
        dfs = doc.df if isinstance(doc.df, list) else ([doc.df] if doc.df is not None else [])
        if len(dfs) != len(snap):
            return False
        return all(d.equals(s, null_equal=True) and dict(d.schema) == sch for d, (s, sch) in zip(dfs, snap))

    def construct(name, share, spec=None):
        sub = tempfile.mkdtemp(dir=td)
        kw = S.build_components(spec or POOL[name], sub)
        shared = []
        if share:
            for pname, pkw, _ in reversed(built):
                keys = shareable(pname, name)
                if keys:
                    for k in keys:
                        arg = "rtf_column_header" if k == "colheader" else "rtf_" + k
                        if arg in pkw and arg in kw:
                            kw[arg] = pkw[arg]
                            shared.append(k)
                    break
        doc = S.apply_post(rtf.RTFDocument(**kw), spec or POOL[name])
        built.append((name, kw, doc))
        return doc, shared

    def encode(doc, name, label):
        snap = snapshot(doc)
        counts["encodes"] += 1
        try:
            with contextlib.redirect_stdout(io.StringIO()):
                out = doc.rtf_encode()
            err = None
        except Exception as e:  # noqa
            out, err = None, e
        if ctx_state() is not None:
            problems.append({"what": f"colour context not empty after {label} of {name}"
                                     f" ({'raised' if err else 'returned'})", "mech": None})
        counts["df_cmp"] += 1
        if not same_frames(doc, snap):
            problems.append({"what": f"{label} of {name} modified the caller's DataFrame", "mech": None})
        return out, err

    try:
        shared_any = []
        for name, op in h["prior"]:
            try:
                doc, sh = construct(name, h.get("share"))
            except Exception as e:  # noqa
                problems.append({"what": f"constructing prior {name} raised {type(e).__name__}: {str(e)[:80]}",
                                 "mech": "shared_component_breaks_construction" if h.get("share") else None})
                continue
            if op in ("enc", "enc2"):
                o1, e1 = encode(doc, name, "prior encode")
                if op == "enc2":
                    o2, e2 = encode(doc, name, "second prior encode")
                    if (o1 is None) != (o2 is None) or o1 != o2:
                        problems.append({"what": f"second encode of {name} differs from the first", "mech": None})
        name = h["target"]
        try:
            derive = h.get("how") == "derive"
            doc, shared_any = construct(name, h.get("share"),
                                        DERIVS[name] if derive else EDITS[name] if h.get("edit") else None)
            if derive:
                for _ in range({"new": 0, "enc": 1, "enc2": 2}[h["edit"]]):
                    encode(doc, name, "encode of the predecessor")
                from pydantic import BaseModel
                tdoc = S.apply_post(rtf.RTFDocument(**S.build_components(POOL[name], tempfile.mkdtemp(dir=td))),
                                    POOL[name])

                def carry(cur, new):
                    # the new value, but as a model_copy(update=...) of the old object where there is one
                    if isinstance(cur, BaseModel) and isinstance(new, BaseModel) and type(cur) is type(new):
                        return cur.model_copy(update={g: getattr(new, g) for g in type(new).model_fields})
                    if isinstance(cur, list) and isinstance(new, list) and len(cur) == len(new):
                        return [carry(a, b) for a, b in zip(cur, new)]
                    return new
                upd = {f: carry(getattr(doc, f), getattr(tdoc, f)) for f in type(tdoc).model_fields}
                doc = doc.model_copy(update=upd)
                counts["derived"] = counts.get("derived", 0) + 1
            elif h.get("edit"):
                for _ in range({"new": 0, "enc": 1, "enc2": 2}[h["edit"]]):
                    encode(doc, name, "encode before the edit")
                # edit the text components in place, field by field, to the pool document's own values
                fresh = S.build_components(POOL[name], tempfile.mkdtemp(dir=td))
                for k in TEXT_COMPONENTS:
                    cur, new = getattr(doc, "rtf_" + k, None), fresh.get("rtf_" + k)
                    if cur is None or new is None or type(cur) is not type(new):
                        continue
                    for f in type(new).model_fields:
                        setattr(cur, f, getattr(new, f))
                    counts["edited"] = counts.get("edited", 0) + 1
        except Exception as e:  # noqa
            problems.append({"what": f"constructing target {name} raised {type(e).__name__}: {str(e)[:80]}",
                             "mech": None, "shared": True})
            return {"problems": problems, "counts": counts, "shared": []}
        out, err = encode(doc, name, "target encode")
        base = baselines[name]
        if base["ok"]:
            if err is not None:
                problems.append({"what": f"target {name} raised {type(err).__name__}: {str(err)[:80]} but encodes "
                                         "in a fresh interpreter", "mech": None, "shared": bool(shared_any)})
            elif out != base["out"]:
                i = next((k for k, (a, b) in enumerate(zip(out, base["out"])) if a != b), min(len(out), len(base["out"])))
                problems.append({"what": f"target {name} differs from its fresh-interpreter output at char {i}: "
                                         f"...{out[max(0, i - 25):i + 25]!r} vs ...{base['out'][max(0, i - 25):i + 25]!r}",
                                 "mech": None, "shared": bool(shared_any)})
        else:
            if err is None:
                problems.append({"what": f"target {name} encoded, but raises {base['exc']} in a fresh interpreter",
                                 "mech": None})
            elif type(err).__name__ != base["exc"]:
                problems.append({"what": f"target {name} raised {type(err).__name__}, fresh interpreter raises "
                                         f"{base['exc']}", "mech": None})
        # a second encode of the target must be identical too
        out2, err2 = encode(doc, name, "second target encode")
        if (out is None) != (out2 is None) or out != out2:
            problems.append({"what": f"second encode of target {name} differs from the first", "mech": None})
        return {"problems": problems, "counts": counts, "shared": shared_any}
    finally:
        shutil.rmtree(td, ignore_errors=True)


def forked(h, baselines, timeout=60):
    """run one history in a forked child; -> result dict | None on watchdog"""
    r, w = os.pipe()
    pid = os.fork()
    if pid == 0:
        code = 0
        try:
            os.close(r)
            try:
                res = run_history(h, baselines)
            except BaseException as e:  # noqa
                import traceback
                res = {"crash": traceback.format_exc()[-800:]}
            data = json.dumps(res, default=str).encode()
            with os.fdopen(w, "wb") as f:
                f.write(data)
        except BaseException:
            code = 3
        finally:
            os._exit(code)
    os.close(w)
    chunks = []
    try:
        import time
        deadline = time.time() + timeout
        while True:
            left = deadline - time.time()
            if left <= 0:
                os.kill(pid, 9)
                os.waitpid(pid, 0)
                return None
            rl, _, _ = select.select([r], [], [], left)
            if not rl:
                continue
            b = os.read(r, 1 << 16)
            if not b:
                break
            chunks.append(b)
        os.waitpid(pid, 0)
    finally:
        os.close(r)
    try:
        return json.loads(b"".join(chunks).decode())
    except Exception:
        return {"crash": "child returned no result"}


def judge(ctx, h, res):
    ctx.count("histories_run")
    ctx.case(h, nontrivial=len(h["prior"]) >= 1)
    ctx.sample(h, limit=4)
    if res is None:
        ctx.count("history_watchdog_fired")
        return
    if "crash" in res:
        ctx.notes.append("history child crashed: " + res["crash"][-300:])
        ctx.count("shard_crashed")
        return
    ctx.count("targets_compared")
    ctx.count("encodes_observed", res["counts"]["encodes"])
    if res["counts"].get("derived"):
        ctx.count("derived_with_model_copy_histories")
    if res["counts"].get("edited"):
        ctx.count("components_edited_in_place", res["counts"]["edited"])
        ctx.count("edit_in_place_histories")
    ctx.count("df_snapshots_compared", res["counts"]["df_cmp"])
    if res.get("shared"):
        ctx.count("shared_component_histories")
        for k in res["shared"]:
            ctx.distinct("shared_components", k)
    if any(p[0] == "raising" and p[1] != "new" for p in h["prior"]):
        ctx.count("after_failed_encode_histories")
    ctx.count(f"history_len_{len(h['prior'])}")
    for p in res["problems"]:
        ctx.violation(p["what"], h, {"mech": p.get("mech"), "shared": p.get("shared")})


def run_shard(desc, ctx):
    import rtflite  # noqa  (imported, never used to encode in this process)
    rng = random.Random(desc["seed"])
    base = desc["baselines"]
    ctx.count("fresh_interpreter_baselines", sum(1 for b in base.values() if b["ok"] or b.get("exc") == "ValueError"))
    for name, b in base.items():
        if b.get("hash_seed_dependent") and desc["shard"] == 0:
            ctx.violation(f"pool document {name}: two fresh interpreters with different PYTHONHASHSEED produce different "
                          "results", {"pool": name}, None)
        expect_raise = bool(POOL[name].get("_raises"))
        if b["ok"] == expect_raise and desc["shard"] == 0:
            ctx.violation(f"pool document {name}: fresh interpreter {'encoded' if b['ok'] else 'raised ' + b.get('exc', '')}"
                          f" but the pool expects {'a ValueError' if expect_raise else 'success'}", {"pool": name},
                          {"baseline": {k: v for k, v in b.items() if k != 'out'}})
    hs = list(desc["enum"]) + [random_history(rng) for _ in range(desc["nrand"])]
    for h in hs:
        res = forked(h, base)
        if res is None:
            res = forked(h, base, timeout=120)
        judge(ctx, h, res)


_BASE_CACHE = None


def replay(data, ctx):
    global _BASE_CACHE
    if _BASE_CACHE is None:
        _BASE_CACHE = fresh_baselines()
    base = _BASE_CACHE
    h = data["case"]
    if "target" in h:
        import rtflite  # noqa
        judge(ctx, h, forked(h, base))
