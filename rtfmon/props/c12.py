"""C12 - colour and font references resolve to what the user asked for.

Oracle on the parsed output: every \\cf \\cb \\chcbpat \\brdrcf index used by any
run or cell border must exist in the document's own colour table, and for
sentinel-tagged elements its RGB must equal the requested named colour (index 0
<=> default); every \\fN must be a font-table entry with N == requested font-1
and the mapped name.  State hook: the colour set active at every
get_rtf_color_index call is the one of the document being encoded.
"""
from __future__ import annotations

import random
import re

from .. import expect as E
from .. import gen as G
from .. import harness as H
from .. import reader as R
from ..spec import strip_meta

PID = "C12"
LEVEL = "exploration"
RULE = ("each of the 657 named colours once on a rotating component/slot (exhaustive), random subsets of 1..8 "
        "colours on title / subline / column header / body (scalar, per-column, matrix) / footnote / source / "
        "page header / footer as text and background colour, border colours on body cells, each of the 10 fonts; "
        "single-section (1..many pages), multi-section (2..4 sections with different palettes) and figure "
        "documents; all cells sentinel-tagged. non-trivial = >=1 non-default colour requested; distinct by spec hash")
ASSUMPTIONS = ["RGB of a named colour is taken from the repository's colour dictionary as data",
               "matrix-shaped colours are bound to the original row on every page (C09's rule)"]
DECIDING = ["docs_parsed", "color_refs_resolved", "font_refs_resolved", "tagged_elements_checked",
            "context_hook_calls"]
FLOOR = {"quick": 1200, "thorough": 15000}
EXHAUSTIVE_NOTE = {"quick": "all 657 colour names each used once (rotating slot)",
                   "thorough": "all 657 colour names x 3 document kinds"}

TAG = re.compile(r"(TT|SL|PH|PF|FN|SR)(\d+)|H(\d+)c(\d+)|d(\d+)c(\d+)|N(\d+)|G(\d+)v(\d+)")
RGB = None


def rgb(name):
    global RGB
    if RGB is None:
        from rtflite.dictionary.color_table import name_to_rgb
        RGB = dict(name_to_rgb)
    return tuple(RGB[name])


def plan(tier, seed):
    per = 150 if tier == "quick" else 1200
    descs = [{"kind": "random", "n": per} for _ in range(13)]
    reps = 1 if tier == "quick" else 3
    for k in range(3):
        descs.append({"kind": "sweep", "lo": k, "step": 3, "reps": reps})
    return descs


def classify(v):
    return (v.get("detail") or {}).get("mech")


# ---------------------------------------------------------------- generation

def palette(rng, k=None, must=None):
    names = G.colors()
    k = k or rng.randint(1, 8)
    p = rng.sample(names, k)
    if must:
        p[0] = must
    return p


def pick(rng, pal, p_default=0.25):
    r = rng.random()
    if r < p_default:
        return rng.choice(["", "black"])
    return rng.choice(pal)


def text_comp(rng, tag, pal, lines=None, p=0.6):
    n = lines or rng.choice([1, 2, 3])
    kw = {"text": [f"{tag}{k}" for k in range(n)]}
    if rng.random() < 0.2:
        # an entry may itself hold a line feed: still ONE entry as far as per-entry attributes go
        k = rng.randrange(n)
        kw["text"][k] += "\nmore"
    if rng.random() < p:
        kw["text_color"] = [pick(rng, pal) for _ in range(n)] if rng.random() < 0.6 else pick(rng, pal)
    if rng.random() < p * 0.6:
        kw["text_background_color"] = ([pick(rng, pal) for _ in range(n)] if rng.random() < 0.5
                                       else pick(rng, pal))
    if rng.random() < 0.5:
        kw["text_font"] = [rng.randint(1, 10) for _ in range(n)] if rng.random() < 0.5 else rng.randint(1, 10)
    return kw


def tbl_comp(rng, tag, pal, as_table, p=0.6):
    kw = {"text": f"{tag}0", "as_table": as_table}
    if rng.random() < p:
        kw["text_color"] = pick(rng, pal)
    if rng.random() < p * 0.6:
        kw["text_background_color"] = pick(rng, pal)
    if rng.random() < 0.5:
        kw["text_font"] = rng.randint(1, 10)
    if as_table:
        for side in ("left", "right", "top", "bottom"):
            if rng.random() < 0.2:
                kw[f"border_color_{side}"] = pick(rng, pal)
    return kw


def body_attrs(rng, pal, n, nc, allow_matrix, p=0.7):
    kw = {}
    shapes = ["scalar", "row"] + (["matrix"] if allow_matrix else [])

    def shaped(f):
        sh = rng.choice(shapes)
        if sh == "scalar":
            return f()
        if sh == "row":
            return [f() for _ in range(nc)]
        return [[f() for _ in range(nc)] for _ in range(max(1, n))]
    if rng.random() < p:
        kw["text_color"] = shaped(lambda: pick(rng, pal))
    if rng.random() < p * 0.6:
        kw["text_background_color"] = shaped(lambda: pick(rng, pal))
    if rng.random() < 0.5:
        kw["text_font"] = shaped(lambda: rng.randint(1, 10))
    for side in ("left", "right", "top", "bottom"):
        if rng.random() < 0.2:
            kw[f"border_color_{side}"] = shaped(lambda: pick(rng, pal))
    return kw


def tagged_df(n, nc, row_base=0, name_base=0):
    return {"cols": [{"name": f"N{name_base + j}", "dtype": "str",
                      "values": [f"d{row_base + r}c{j}" for r in range(n)]} for j in range(nc)]}


def header(rng, pal, nc, base=0):
    mode = rng.choice(["default", "none", "explicit", "explicit", "auto"])
    if mode not in ("explicit", "auto"):
        return mode
    kw = {"text": [f"H{base}c{j}" for j in range(nc)]}
    if mode == "auto":
        # a header object WITHOUT labels (they come from the column names) that still carries colours
        kw = {}
    if rng.random() < 0.6:
        kw["text_color"] = [pick(rng, pal) for _ in range(nc)] if rng.random() < 0.6 else pick(rng, pal)
    if rng.random() < 0.4:
        kw["text_background_color"] = pick(rng, pal)
    if rng.random() < 0.4:
        kw["text_font"] = rng.randint(1, 10)
    for side in ("left", "right", "top", "bottom"):
        if rng.random() < 0.2:
            kw[f"border_color_{side}"] = pick(rng, pal)
    rows = [kw]
    for extra_row in range(0 if mode == "auto" else rng.choice([0, 0, 1, 2])):
        # further header rows with colours of their own (a colour used ONLY here still has to be in the table)
        kw2 = {"text": [f"H{base + 1 + extra_row}c{j}" for j in range(nc)]}
        if rng.random() < 0.7:
            kw2["text_color"] = [pick(rng, pal) for _ in range(nc)] if rng.random() < 0.6 else pick(rng, pal)
        if rng.random() < 0.4:
            kw2["text_background_color"] = pick(rng, pal)
        if rng.random() < 0.3:
            kw2[f"border_color_{rng.choice(['left', 'right', 'top', 'bottom'])}"] = pick(rng, pal)
        rows.append(kw2)
    return rows


def common_parts(rng, spec, pal, figure=False):
    if rng.random() < 0.7:
        spec["title"] = text_comp(rng, "TT", pal)
    if rng.random() < 0.4:
        spec["subline"] = text_comp(rng, "SL", pal)
    if rng.random() < 0.4:
        spec["page_header"] = text_comp(rng, "PH", pal, lines=1)
    if rng.random() < 0.4:
        spec["page_footer"] = text_comp(rng, "PF", pal)
    if rng.random() < 0.6:
        spec["footnote"] = tbl_comp(rng, "FN", pal, False if figure else rng.random() < 0.6)
    if rng.random() < 0.6:
        spec["source"] = tbl_comp(rng, "SR", pal, False if figure else rng.random() < 0.4)


def gen_single(rng, pal):
    multi_page = rng.random() < 0.5
    n = rng.randint(1, 14)
    nc = rng.randint(1, 5)
    spec = {"kind": "table", "df": tagged_df(n, nc), "body": body_attrs(rng, pal, n, nc, True)}
    spec["colheader"] = header(rng, pal, nc)
    spec["page"] = {"nrow": rng.randint(4, 8) if multi_page else 60}
    if rng.random() < 0.3:
        spec["page"]["page_footnote"] = rng.choice(G.PLACES)
    common_parts(rng, spec, pal)
    return spec


def gen_pageby(rng, pal):
    """page_by shown as heading rows, 1..3 levels in columns anywhere in the frame, text colour / background / font
    given per column: the heading row of a level is drawn with its own column's settings (first row of the
    setting).  An upper level may be null - also on the rows that open a page -, or the divider."""
    n = rng.randint(4, 14)
    nc = rng.randint(3, 6)
    lv = rng.choice([1, 2, 2, 3])
    lv = min(lv, nc - 1)
    df = tagged_df(n, nc)
    pos = rng.sample(range(nc), lv)
    keys = G.gen_group_keys(rng, n, lv, maxruns=3, reuse_inner=True)
    labels = [{} for _ in range(lv)]
    for l, j in enumerate(pos):
        vals = []
        for k in keys:
            m = labels[l]
            if k[l] not in m:
                m[k[l]] = f"G{l}v{len(m)}"
            vals.append(m[k[l]])
        if l < lv - 1 and rng.random() < 0.5:
            t = rng.choice(sorted(set(vals)))
            nv = rng.choice([None, None, E.DIVIDER])
            vals = [nv if v == t else v for v in vals]
        df["cols"][j]["values"] = vals
    body = {"page_by": [f"N{j}" for j in pos],
            "text_color": [[pick(rng, pal) for _ in range(nc)]],
            "text_font": [[rng.randint(1, 10) for _ in range(nc)]]}
    if rng.random() < 0.5:
        body["text_background_color"] = [[pick(rng, pal) for _ in range(nc)]]
    if rng.random() < 0.3:
        body["pageby_header"] = rng.random() < 0.5
    spec = {"kind": "table", "df": df, "body": body, "colheader": rng.choice(["default", "none"]),
            "page": {"nrow": rng.choice([4, 5, 7, 40])}, "title": None}
    return spec


def gen_multi(rng, pals):
    sections = []
    base = 0
    for s, pal in enumerate(pals):
        n = rng.randint(1, 6)
        nc = rng.randint(1, 4)
        sections.append({"df": tagged_df(n, nc, base, name_base=10 * s), "body": body_attrs(rng, pal, n, nc, True),
                         "colheader": header(rng, pal, nc, base=10 * s)})
        base += n
    spec = {"kind": "multi", "sections": sections, "multi_header": "nested", "page": {"nrow": 80}}
    common_parts(rng, spec, pals[0] + pals[-1])
    return spec


def gen_figure(rng, pal):
    files = [G.gen_figure_file(rng, i, fmt="png") for i in range(rng.randint(1, 3))]
    spec = {"kind": "figure", "figure": {"files": files, "kw": {}}}
    if rng.random() < 0.5:
        spec["page"] = {k: rng.choice(G.PLACES) for k in ("page_title", "page_footnote", "page_source")}
    common_parts(rng, spec, pal, figure=True)
    return spec


# ---------------------------------------------------------------- expectation

def lines_of(comp):
    t = comp["text"]
    return [t] if isinstance(t, str) else list(t)


def per_line(v, i):
    """text components: a list gives one value per line (recycled), a scalar all lines"""
    if isinstance(v, list):
        return v[i % len(v)]
    return v


def requests(spec):
    """tag -> {"fg","bg","font"} requested for that element"""
    req = {}
    for key, tag, dfont in (("title", "TT", 1), ("subline", "SL", 1), ("page_header", "PH", 1),
                            ("page_footer", "PF", 1)):
        c = spec.get(key)
        if isinstance(c, dict):
            for i, _ in enumerate(lines_of(c)):
                req[f"{tag}{i}"] = {"fg": per_line(c.get("text_color", ""), i),
                                    "bg": per_line(c.get("text_background_color", ""), i),
                                    "font": per_line(c.get("text_font", dfont), i)}
    for key, tag in (("footnote", "FN"), ("source", "SR")):
        c = spec.get(key)
        if isinstance(c, dict):
            req[f"{tag}0"] = {"fg": c.get("text_color", ""), "bg": c.get("text_background_color", ""),
                              "font": c.get("text_font", 1)}
            for side in ("left", "right", "top", "bottom"):
                if f"border_color_{side}" in c:
                    req[f"{tag}0"]["b" + side[0]] = c[f"border_color_{side}"]
    secs = spec["sections"] if spec.get("kind") == "multi" else ([spec] if spec.get("kind", "table") == "table" else [])
    for sec in secs:
        body = sec.get("body", {})
        df = sec["df"]
        nc = len(df["cols"])
        for j, col in enumerate(df["cols"]):
            for r, tag in enumerate(col["values"]):
                q = {"fg": E.broadcast(body.get("text_color", ""), r, j),
                     "bg": E.broadcast(body.get("text_background_color", ""), r, j),
                     "font": E.broadcast(body.get("text_font", 1), r, j)}
                for side in ("left", "right", "top", "bottom"):
                    if f"border_color_{side}" in body:
                        q["b" + side[0]] = E.broadcast(body[f"border_color_{side}"], r, j)
                req[tag] = q
        for l, name in enumerate(body.get("page_by") or []):
            # heading rows: the level's own column, first row of the setting
            j = [c["name"] for c in df["cols"]].index(name)
            for v in set(df["cols"][j]["values"]):
                if isinstance(v, str) and E.TAG_GRP.fullmatch(v):
                    req[v] = {"fg": E.broadcast(body.get("text_color", ""), 0, j),
                              "bg": E.broadcast(body.get("text_background_color", ""), 0, j),
                              "font": E.broadcast(body.get("text_font", 1), 0, j)}
        h = sec.get("colheader", "default")
        if isinstance(h, list):
            for kw in h:
                for j, tag in enumerate(kw.get("text") or [c["name"] for c in df["cols"]]):
                    req[tag] = {"fg": per_line(kw.get("text_color", ""), j),
                                "bg": per_line(kw.get("text_background_color", ""), j),
                                "font": per_line(kw.get("text_font", 1), j)}
                    for side in ("left", "right", "top", "bottom"):
                        if f"border_color_{side}" in kw:
                            req[tag]["b" + side[0]] = kw[f"border_color_{side}"]
        elif h == "default":
            for c in df["cols"]:
                req.setdefault(c["name"], {"fg": "", "bg": "", "font": 1})
    return req


def all_requested(spec):
    out = set()

    def walk(v):
        if isinstance(v, str):
            if v and v != "black":
                out.add(v)
        elif isinstance(v, list):
            for x in v:
                walk(x)

    def comp(c):
        if isinstance(c, dict):
            for k, v in c.items():
                if "color" in k:
                    walk(v)
    for key in ("title", "subline", "page_header", "page_footer", "footnote", "source"):
        comp(spec.get(key))
    for sec in (spec.get("sections") or ([spec] if "df" in spec else [])):
        comp(sec.get("body"))
        h = sec.get("colheader")
        if isinstance(h, list):
            for kw in h:
                comp(kw)
    return out


def iter_runs(doc):
    """(where, run, celldef|None) for every text run of the document incl. header/footer"""
    for pi, page in enumerate(doc.pages):
        for b in page.blocks:
            if b.kind == "para":
                for r in b.runs:
                    yield ("para", r, None)
            elif b.kind == "row":
                for c, d in zip(b.cells, b.defs):
                    for r in c.runs:
                        yield ("cell", r, d)
    for grp in doc.headers + doc.footers:
        for b in grp:
            if b.kind == "para":
                for r in b.runs:
                    yield ("hf", r, None)


def check_spec(ctx, spec, ctxhook):
    case = strip_meta(spec)
    o = H.build_and_encode(spec)
    if o.stage == "build":
        ctx.count("rejected_at_construction")
        ctx.notes.append("rejected: " + repr(o.exc)[:200])
        return
    wanted = all_requested(spec)
    kind = spec.get("kind", "table")
    ctx.case(case, bool(wanted))
    ctx.count("kind_" + kind)
    ctx.sample({"kind": kind, "colours": sorted(wanted)[:8]}, limit=4)
    if o.stage == "encode":
        info = H.exc_info(o.exc)
        ctx.violation(f"rtf_encode raised {info['exc']} @ {info['where']}", case, info)
        return
    doc = R.parse(o.out)
    ctx.count("docs_parsed")
    mech = None
    ncol = len(doc.colors) if doc.colors is not None else 0
    if wanted and doc.colors is None and any(True for _ in iter_runs(doc)):
        # a colour table is required when a non-default colour is *used* in the output
        pass
    req = requests(spec)
    bad_range = []
    used_nondefault = False
    for where, run, cdef in iter_runs(doc):
        for key in ("cf", "cb", "chcbpat"):
            i = run.props.get(key)
            if i:
                used_nondefault = True
                if i < 0 or i >= ncol:
                    bad_range.append((key, i, run.text[:12]))
                ctx.count("color_refs_seen")
        f = run.props.get("f")
        if f is not None:
            ent = doc.fonts.get(f)
            if ent is None:
                ctx.violation(f"\\f{f} is not in the font table", case, {"f": f})
            ctx.count("font_refs_seen")
    for row in doc.rows():
        for d in row.defs:
            for side, b in d.borders.items():
                if b.get("cf"):
                    used_nondefault = True
                    if b["cf"] >= ncol:
                        bad_range.append(("brdrcf", b["cf"], side))
    if bad_range:
        ctx.violation(f"colour index out of range of the document's {ncol}-entry table: {bad_range[:3]}", case,
                      {"table_len": ncol, "refs": bad_range[:10], "mech": mech})
    if used_nondefault and doc.colors is None:
        ctx.violation("non-default colour used but no colour table emitted", case, {"mech": mech})
    # tagged elements
    for where, run, cdef in iter_runs(doc):
        t = run.text.strip()
        m = TAG.match(t)
        if not m or t[:m.end()] not in req:
            continue
        tag = t[:m.end()]
        q = req[tag]
        ctx.count("tagged_elements_checked")
        for key, want in (("cf", q["fg"]), ("cb", q["bg"]), ("chcbpat", q["bg"])):
            i = run.props.get(key) or 0
            if not want or want == "black":
                if i != 0:
                    got = doc.colors[i] if doc.colors and i < len(doc.colors) else None
                    if not (want == "black" and got == (0, 0, 0)):
                        ctx.violation(f"{tag}: default colour requested but \\{key}{i} emitted", case,
                                      {"tag": tag, "key": key, "index": i, "mech": mech})
                continue
            if i == 0:
                ctx.violation(f"{tag}: colour '{want}' requested but \\{key} is absent/0", case,
                              {"tag": tag, "key": key, "want": want, "mech": mech})
                continue
            got = doc.colors[i] if doc.colors and 0 <= i < len(doc.colors) else "out-of-range"
            if got != rgb(want):
                ctx.violation(f"{tag}: \\{key}{i} resolves to {got}, requested '{want}' = {rgb(want)}", case,
                              {"tag": tag, "key": key, "index": i, "got": str(got), "want": want,
                               "table_len": ncol, "mech": mech})
            else:
                ctx.count("color_refs_resolved")
        f = run.props.get("f")
        wf = q["font"]
        if f is None or f != wf - 1:
            ctx.violation(f"{tag}: font {wf} requested but \\f{f} emitted", case, {"tag": tag, "f": f, "want": wf})
        else:
            name = doc.fonts.get(f, {}).get("name", "").rstrip(";").strip()
            if name != E.FONT_NAMES[wf - 1]:
                ctx.violation(f"{tag}: \\f{f} names '{name}' in the font table, font {wf} is "
                              f"'{E.FONT_NAMES[wf - 1]}'", case, {"tag": tag, "f": f, "name": name})
            else:
                ctx.count("font_refs_resolved")
        if cdef is not None:
            for side in "lrtb":
                want = q.get("b" + side)
                b = cdef.borders.get(side)
                if b is not None and want and want != "black" and not b.get("cf"):
                    ctx.violation(f"{tag}: border colour '{want}' requested on side {side} but \\brdrcf is "
                                  f"absent/0", case, {"tag": tag, "side": side, "mech": mech})
                if b and b.get("cf"):
                    i = b["cf"]
                    got = doc.colors[i] if doc.colors and i < len(doc.colors) else "out-of-range"
                    ctx.count("border_color_refs_seen")
                    if not want or got != rgb(want):
                        ctx.violation(f"{tag}: border {side} \\brdrcf{i} resolves to {got}, requested '{want}'",
                                      case, {"tag": tag, "side": side, "mech": mech})
    if ctxhook.bad:
        ctx.violation("colour context at get_rtf_color_index is not the encoding document's: "
                      + str(ctxhook.bad[0]), case, {"hook": ctxhook.bad[:3], "mech": mech})
        ctxhook.bad.clear()


class ContextHook:
    """State hook: at every get_rtf_color_index call made while a document is being
    encoded, the active colour set must be that document's own."""

    def __init__(self):
        self.calls = 0
        self.bad = []
        self.current = None

    def install(self):
        from rtflite.services import color_service as cs_mod
        from rtflite.encode import RTFDocument
        svc = cs_mod.color_service
        hook = self
        self._svc = svc
        self._orig_get = type(svc).get_rtf_color_index
        self._orig_enc = RTFDocument.rtf_encode

        def get(self_s, color, used_colors=None):
            hook.calls += 1
            if hook.current is not None and used_colors is None and color and color != "black":
                active = getattr(self_s, "_current_document_colors", "n/a")
                try:
                    from contextvars import ContextVar  # noqa
                    if hasattr(self_s, "_get_context"):
                        active = self_s._get_context()
                except Exception:
                    pass
                if active != "n/a":
                    want = hook.current
                    if active is None or set(c for c in active if c and c != "black") != want:
                        if len(hook.bad) < 3:
                            hook.bad.append({"active": None if active is None else sorted(active)[:6],
                                             "want": sorted(want)[:6]})
            return hook._orig_get(self_s, color, used_colors)

        def enc(self_d):
            prev = hook.current
            try:
                hook.current = set(c for c in svc.collect_document_colors(self_d) if c and c != "black")
            except Exception:
                hook.current = None
            try:
                return hook._orig_enc(self_d)
            finally:
                hook.current = prev
        type(svc).get_rtf_color_index = get
        RTFDocument.rtf_encode = enc
        return self

    def uninstall(self):
        from rtflite.encode import RTFDocument
        type(self._svc).get_rtf_color_index = self._orig_get
        RTFDocument.rtf_encode = self._orig_enc


def run_shard(desc, ctx):
    rng = random.Random(desc["seed"])
    hook = ContextHook().install()
    try:
        if desc["kind"] == "random":
            # a heat-map style table with several hundred different colours (more than fit into one byte)
            # ... and more of them, with OTHER colours, later in the same process (101..400 colours each)
            for size in (rng.choice([200, 256, 257, 300, 400]), rng.choice([101, 120, 160]),
                         rng.choice([110, 200, 300])):
                names = rng.sample(G.colors(), size)
                n, nc = len(names) // 10, 10
                big = {"kind": "table", "df": tagged_df(n, nc), "colheader": "none", "title": None,
                       "page": {"nrow": n + 10},
                       "body": {"text_color": [names[r * nc:(r + 1) * nc] for r in range(n)],
                                "text_background_color": [list(reversed(names[r * nc:(r + 1) * nc]))
                                                          for r in range(n)]}}
                ctx.count("documents_with_100+_colours")
                check_spec(ctx, big, hook)
            for _ in range(desc["n"]):
                r = rng.random()
                if r < 0.08:
                    ctx.count("page_by_heading_documents")
                    spec = gen_pageby(rng, palette(rng))
                elif r < 0.5:
                    spec = G.maybe_prior(rng, gen_single(rng, palette(rng)))
                elif r < 0.8:
                    spec = gen_multi(rng, [palette(rng) for _ in range(rng.randint(2, 4))])
                else:
                    spec = gen_figure(rng, palette(rng))
                check_spec(ctx, spec, hook)
        else:
            names = G.colors()[desc["lo"]::desc["step"]]
            for name in names:
                for rep in range(desc["reps"]):
                    ctx.count("sweep_colours")
                    pal = palette(rng, rng.randint(1, 4), must=name)
                    kind = ["single", "multi", "figure"][(rep + names.index(name)) % 3] if desc["reps"] == 1 \
                        else ["single", "multi", "figure"][rep % 3]
                    # force the swept colour onto one element by making it the only choice
                    spec = (gen_single(rng, [name]) if kind == "single" else
                            gen_multi(rng, [[name], palette(rng)]) if kind == "multi" else
                            gen_figure(rng, [name]))
                    if not all_requested(spec):
                        spec["title"] = {"text": ["TT0"], "text_color": name}
                    check_spec(ctx, spec, hook)
    finally:
        ctx.count("context_hook_calls", hook.calls)
        hook.uninstall()


def replay(data, ctx):
    hook = ContextHook().install()
    spec = data["case"]
    if spec.get("kind") == "figure":
        for f in spec["figure"]["files"]:
            f["_fmt"] = "png"
    check_spec(ctx, spec, hook)
    hook.uninstall()
