"""pytest plugin: the repository's own tests as an extra workload.

Loaded with `-p rtfmon.pytest_plugin`; wraps RTFDocument.rtf_encode so that every
document any test encodes is also read back by the independent reader.  The
observations are written to the JSON file named by RTFMON_PLUGIN_OUT.  Only
documents inside C01's quantifier (no raw RTF metacharacters in any user text
apart from the default page-number field) can produce a violation record; the
others are counted.
"""
from __future__ import annotations

import json
import os

STATE = {"encodes": 0, "parsed": 0, "in_quantifier": 0, "rows": 0, "pages": 0, "violations": [], "errors": [],
         "out_of_quantifier": 0, "tests_with_encodes": set()}
DEFAULT_PH = "Page \\chpgn of {\\field{\\*\\fldinst NUMPAGES }}"


def _texts(doc):
    out = []

    def add(v):
        if v is None:
            return
        if isinstance(v, str):
            out.append(v)
        elif isinstance(v, (list, tuple)):
            for x in v:
                add(x)
    for name in ("rtf_title", "rtf_subline", "rtf_footnote", "rtf_source", "rtf_page_footer", "rtf_page_header"):
        c = getattr(doc, name, None)
        if c is not None:
            add(getattr(c, "text", None))
    hdr = getattr(doc, "rtf_column_header", None) or []
    for h in hdr:
        for hh in (h if isinstance(h, (list, tuple)) else [h]):
            if hh is not None:
                t = getattr(hh, "text", None)
                add(list(t) if isinstance(t, (list, tuple)) else t)
    dfs = doc.df if isinstance(doc.df, list) else ([doc.df] if doc.df is not None else [])
    for df in dfs:
        try:
            import polars as pl
            for col in df.columns:
                out.append(str(col))
                if df[col].dtype == pl.Utf8:
                    out.extend(v for v in df[col].to_list() if v is not None)
        except Exception:
            pass
    return out


def _in_quantifier(doc):
    for t in _texts(doc):
        t = t.replace(DEFAULT_PH, "")
        if "\\" in t or "{" in t or "}" in t:
            return False
    return True


def _analyze(doc, out):
    from . import reader as R
    STATE["encodes"] += 1
    test = os.environ.get("PYTEST_CURRENT_TEST", "?").split(" ")[0]
    STATE["tests_with_encodes"].add(test)
    if not isinstance(out, str) or not out:
        return
    parsed = R.parse(out)
    STATE["parsed"] += 1
    STATE["pages"] += len(parsed.pages)
    STATE["rows"] += sum(1 for _ in parsed.rows())
    inq = _in_quantifier(doc)
    if inq:
        STATE["in_quantifier"] += 1
    else:
        STATE["out_of_quantifier"] += 1
    problems = [str(e) for e in parsed.errors[:5]] + [str(e) for e in R.row_wellformed_errors(parsed)[:5]]
    # generic C12 invariant: every colour index used lies inside the document's own colour table
    ncol = len(parsed.colors) if parsed.colors is not None else 0
    for page in parsed.pages:
        for b in page.blocks:
            runs = b.runs if b.kind == "para" else [r for c in b.cells for r in c.runs] if b.kind == "row" else []
            for r in runs:
                for k in ("cf", "cb", "chcbpat"):
                    i = r.props.get(k)
                    if i and i >= ncol:
                        problems.append(f"colour index \\{k}{i} outside the {ncol}-entry colour table")
                        break
    if problems and inq:
        if len(STATE["violations"]) < 20:
            STATE["violations"].append({"test": test, "problems": problems[:6]})
    elif problems:
        STATE.setdefault("problems_outside_quantifier", 0)
        STATE["problems_outside_quantifier"] += 1


def pytest_configure(config):
    try:
        from rtflite.encode import RTFDocument
    except Exception as e:  # noqa
        STATE["errors"].append("import failed: " + repr(e))
        return
    orig = RTFDocument.rtf_encode

    def wrapped(self):
        out = orig(self)
        try:
            _analyze(self, out)
        except Exception as e:  # noqa  (a broken monitor must not change the test's outcome)
            if len(STATE["errors"]) < 10:
                STATE["errors"].append(repr(e)[:200])
        return out
    RTFDocument.rtf_encode = wrapped


def pytest_sessionfinish(session, exitstatus):
    path = os.environ.get("RTFMON_PLUGIN_OUT")
    if not path:
        return
    d = dict(STATE)
    d["tests_with_encodes"] = len(STATE["tests_with_encodes"])
    d["exitstatus"] = int(exitstatus)
    with open(path, "w") as f:
        json.dump(d, f)
