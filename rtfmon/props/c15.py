"""C15 - concurrent encodes do not interfere.

Worker threads run rtf_encode() under the baton scheduler (rtfmon/sched.py):
the schedule says at which library call boundary a thread is preempted and who
runs next, so interleavings are enumerated systematically instead of hoped for.
Oracle: every thread's string equals the string the same document yields alone.
"""
from __future__ import annotations

import contextlib
import io
import os
import random

from .. import gen as G
from .. import spec as S
from . import c14

PID = "C15"
LEVEL = "exploration"
RULE = ("pairs/triples of pool documents with different palettes and shapes, each encoded on its own thread "
        "under a deterministic scheduler; schedule = set of (thread, library call boundary, next thread) "
        "preemptions. Exhaustive: every single preemption at every boundary of every thread of the listed "
        "pairs (the other thread then runs to completion); sampled: 2 and 3 preemptions, 3 threads. "
        "non-trivial = >=1 preemption actually taken; distinct by (documents, schedule) hash")
ASSUMPTIONS = ["threads are only switched at Python function entries inside src/rtflite (points where CPython "
               "may switch threads anyway); finer-grained (bytecode-level) preemption is not explored",
               "exactly one worker thread runs at a time (baton), so the monitor's own state cannot race"]
DECIDING = ["schedules_run", "preemptions_taken", "thread_results_compared", "shared_state_ops_seen"]
FLOOR = {"quick": 1500, "thorough": 20000}
EXHAUSTIVE_NOTE = {"quick": "every single-preemption schedule of pair (col_a, col_b), both directions",
                   "thorough": "every single-preemption schedule of 5 pairs, both directions"}

PAIRS = [("col_a", "col_b"), ("col_a", "multi_a"), ("figure", "col_b"), ("pageby", "multi_b"), ("raising", "col_a")]
TRIPLES = [("col_a", "col_b", "multi_a"), ("figure", "pageby", "col_b"), ("col_a", "raising", "multi_b")]


def exhaustive(tier):
    return False


def plan(tier, seed):
    descs = []
    pairs = PAIRS[:1] if tier == "quick" else PAIRS
    k = 12 if tier == "quick" else 13
    for pi, pair in enumerate(pairs):
        for i in range(k):
            descs.append({"kind": "single", "docs": list(pair), "lo": i, "step": k, "timeout": 1800})
    nrand = 400 if tier == "quick" else 20000
    for i in range(4 if tier == "quick" else 16):
        descs.append({"kind": "sampled", "n": nrand // (4 if tier == "quick" else 16), "timeout": 1800})
    return descs


def classify(v):
    return None


class Env:
    def __init__(self):
        import rtflite
        from ..sched import Scheduler
        self.root = os.path.dirname(rtflite.__file__)
        self.sched = Scheduler(self.root)
        self.docs = {}
        self.solo = {}
        self.nb = {}
        self.tmp = []
        self._install_trace()

    def _install_trace(self):
        from rtflite.services import color_service as m
        cls = type(m.color_service)
        sched = self.sched
        self._orig = {}
        for name in ("set_document_context", "clear_document_context", "get_rtf_color_index"):
            orig = getattr(cls, name)
            self._orig[name] = orig

            def make(orig, name):
                def wrapped(self_s, *a, **kw):
                    if sched.active:
                        sched.trace.append((sched.current(), name))
                    return orig(self_s, *a, **kw)
                return wrapped
            setattr(cls, name, make(orig, name))

    def close(self):
        from rtflite.services import color_service as m
        cls = type(m.color_service)
        for name, orig in self._orig.items():
            setattr(cls, name, orig)
        self.sched.close()
        import shutil
        for t in self.tmp:
            shutil.rmtree(t, ignore_errors=True)

    def job(self, name):
        doc = self.docs[name]

        def fn():
            with contextlib.redirect_stdout(io.StringIO()):
                return doc.rtf_encode()
        return fn

    def prepare(self, names):
        import tempfile
        for n in names:
            if n in self.docs:
                continue
            td = tempfile.mkdtemp(prefix="rtfmon-c15-")
            self.tmp.append(td)
            self.docs[n] = S.build(c14.POOL[n], td)
            # solo result, measured under the same monitoring (twice: warm caches first)
            for _ in range(2):
                res, fin = self.sched.run({n: self.job(n)}, {}, n)
            self.solo[n] = res[n]
            self.nb[n] = self.sched.counts[n]


def run_schedule(ctx, env, names, plan, first, label):
    jobs = {f"T{i}:{n}": env.job(n) for i, n in enumerate(names)}
    keys = list(jobs)
    p = {keys[i]: {k: keys[t] for k, t in pl.items()} for i, pl in plan.items()}
    res, finished = env.sched.run(jobs, p, keys[first])
    case = {"docs": list(names), "plan": {str(i): {str(k): t for k, t in pl.items()} for i, pl in plan.items()},
            "first": first}
    taken = list(env.sched.taken)
    ctx.count("schedules_run")
    ctx.case(case, nontrivial=bool(taken))
    ctx.sample({"case": case, "preemptions_taken": [(t[0], t[1], t[2] + ":" + t[3], t[4]) for t in taken]}, limit=4)
    if not finished:
        ctx.count("schedule_watchdog_fired")
        return
    ctx.count("preemptions_taken", len(taken))
    for t in taken:
        ctx.distinct("preemption_sites", t[2] + ":" + t[3])
    ctx.count("shared_state_ops_seen", len(env.sched.trace))
    # distinct interleavings of the shared colour-state operations (run-length compressed thread order)
    sig = []
    for th, op in env.sched.trace:
        if not sig or sig[-1] != th:
            sig.append(th)
    if len(sig) > 1:
        ctx.distinct("shared_state_interleavings", "|".join(sig)[:200] + "#" + str(len(env.sched.trace)))
    for i, n in enumerate(names):
        ctx.count("thread_results_compared")
        got = res.get(keys[i])
        want = env.solo[n]
        if got != want:
            where = [(t[0], t[1], t[2] + ":" + t[3]) for t in taken]
            if got and want and got[0] == want[0] == "ok":
                a, b = got[1], want[1]
                j = next((x for x, (c, d) in enumerate(zip(a, b)) if c != d), min(len(a), len(b)))
                diff = f"at char {j}: {a[max(0, j - 20):j + 20]!r} vs alone {b[max(0, j - 20):j + 20]!r}"
            else:
                diff = f"{str(got)[:80]} vs alone {str(want)[:80]}"
            ctx.violation(f"thread encoding {n} returned a different result than alone ({label}); {diff}",
                          case, {"preemptions": where, "thread": i})


def run_shard(desc, ctx):
    rng = random.Random(desc["seed"])
    env = Env()
    try:
        if desc["kind"] == "single":
            names = desc["docs"]
            env.prepare(names)
            jobs = []
            for me in (0, 1):
                for k in range(1, env.nb[names[me]] + 1):
                    jobs.append((me, k))
            ctx.count("call_boundaries_" + "+".join(names), 0)
            for me, k in jobs[desc["lo"]::desc["step"]]:
                run_schedule(ctx, env, names, {me: {k: 1 - me}}, me, "single preemption")
            if desc["lo"] == 0:
                ctx.count("boundaries_thread0", env.nb[names[0]])
                ctx.count("boundaries_thread1", env.nb[names[1]])
        else:
            for _ in range(desc["n"]):
                if rng.random() < 0.5:
                    names = list(rng.choice(PAIRS))
                else:
                    names = list(rng.choice(TRIPLES))
                if rng.random() < 0.5:
                    rng.shuffle(names)
                env.prepare(names)
                nt = len(names)
                npre = rng.choice([2, 2, 3, 3, 4])
                plan: dict = {}
                for _ in range(npre):
                    th = rng.randrange(nt)
                    k = rng.randint(1, env.nb[names[th]])
                    tgt = rng.choice([x for x in range(nt) if x != th])
                    plan.setdefault(th, {})[k] = tgt
                run_schedule(ctx, env, names, plan, rng.randrange(nt), f"{npre} preemptions, {nt} threads")
    finally:
        env.close()


def replay(data, ctx):
    case = data["case"]
    env = Env()
    try:
        env.prepare(case["docs"])
        plan = {int(i): {int(k): t for k, t in pl.items()} for i, pl in case["plan"].items()}
        run_schedule(ctx, env, case["docs"], plan, case["first"], "replay")
    finally:
        env.close()
