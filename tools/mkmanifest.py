#!/usr/bin/env python3
"""Regenerate MANIFEST.json from the table below (keeps it schema-valid)."""
import json, os
HERE = os.path.dirname(os.path.dirname(os.path.abspath(__file__)))
ids = [json.loads(l)["id"] for l in open(os.path.join(HERE, "properties.jsonl"))]

CHECKS = {
 "C01": dict(cat="exploration", ref="5/C01",
   technique="runtime monitoring: independent RTF reader as output oracle + invariant hook on Row._as_rtf over generated documents",
   text="Every generated document accepted at construction is encoded by the real library; the returned string is re-read by an independent RTF reader (structure, lexical validity, per-row cellx/cell agreement) and a hook on Row._as_rtf checks definitions==contents on every call. Held on the executions produced (thousands of distinct specs incl. the full header x strategy x footnote x source product); not a proof.",
   note="trusted: rtfmon/reader.py (self-tested against hand-written RTF, malformed inputs and the repository's 71 RTF fixtures), CPython, the spec generators' reach"),
 "C02": dict(cat="exploration", ref="5/C02",
   technique="runtime monitoring: output read back by an independent RTF reader and compared with the input frame; conservation hook on the three paginate() methods",
   text="For every generated table (all strategies, nrow 1..50, wrapped rows, header/footnote/source variants, single and multi-section) the parsed data rows of all pages, concatenated, must equal the DataFrame's display texts in order; every table row must be classifiable by sentinel; a hook on DefaultPaginationStrategy/PageByStrategy/SublineStrategy.paginate asserts that the page slices partition the frame. Includes a completely enumerated rows x nrow x strategy x header grid.",
   note="trusted: reader; sentinel tagging of one key column per table; group_by absent (C13)"),
 "C03": dict(cat="exploration", ref="5/C03",
   technique="runtime monitoring: per-page row weights of the parsed output (independent Pillow lower bound on wrapped lines) vs nrow; invariant hook on PageBreakCalculator._assign_pages",
   text="Single-section tables whose cells need 1..6 lines at their own font and size, with every header mode, footnote/source form and placement and all three strategies, are rendered by the real library; on every parsed page header rows + heading rows + subline heading + data rows (weighted by ceil(Pillow text width / column width) at the cell's own font/size - a lower bound, so the oracle never over-counts) + table footnote/source rows must not exceed nrow unless the page holds one data row. A hook asserts that _assign_pages never fills a page beyond its own available_rows. One open known finding (auto-named header row not reserved; pinned by an existing test) is matched by mechanism.",
   note="trusted: reader; Pillow metrics of the bundled fonts (independent of strwidth.py); pages with one data row exempt"),
 "C04": dict(cat="exploration", ref="5/C04",
   technique="runtime monitoring: page membership of tagged rows and rows rendered per page vs forced-break / necessity / prefix-stability rules; _assign_pages output replayed against a reference greedy; exhaustive small height vectors and group patterns",
   text="Tables with unambiguous row heights are rendered by the real library: every height vector in {1,2,3}^n (n<=5 quick, <=7 thorough) x nrow 2..12 x 4 reservation sets, every group-change pattern up to length 6/7 under page_by (new_page off/on) and subline_by, and random larger cases. Pages must be non-empty contiguous runs; subline_by changes and page_by changes with new_page must start a page; every other break must be necessary under the most generous reading of the reservation rule; encoding a prefix of the data must paginate it identically. A hook replays every _assign_pages call against a reference greedy.",
   note="trusted: reader; heights made unambiguous by construction (20% margins around line multiples); generous reserve = configured repeating components not yet rendered on the page"),
 "C05": dict(cat="exploration", ref="5/C05",
   technique="runtime monitoring: per-page sequence of heading rows, heading paragraphs and tagged data rows of the parsed output vs an independent walker over the input keys",
   text="Sorted group-key sequences (1-3 page_by levels, inner labels restarting under every parent, subline_by, one divider group) are rendered by the real library at page sizes that make groups start, end and continue at every in-page offset; the exhaustive part enumerates every composition of n rows into runs. On each parsed page the sequence of full-width heading rows and tagged data rows must equal the sequence a walker regenerates from the keys and the observed page membership (continuation heading at the page top, outer before inner, inner re-rendered when the outer changes, no heading for dividers, none stranded); with subline_by every page must carry the paragraph naming its single group before the first table row.",
   note="trusted: reader; spanning mode only; keys contiguous per level as the quantifier says"),
 "C06": dict(cat="exploration", ref="5/C06",
   technique="runtime monitoring: per-page role sequence and page-break geometry of the parsed output vs the placement rules; metamorphic re-encoding of one-page documents under all 27 placement combinations",
   text="The placement product (page_title x page_footnote x page_source x footnote/source form x pageby_header x strategy x header mode) is rendered at three sizes by the real library (complete in thorough, every 9th element in quick) together with random paper sizes and figure documents; on every parsed page the presence, multiplicity, form and order of title, subline, column headers, body, footnote and source are compared with the configured placement, every page break must restate the document-start geometry (which must be inches x 1440 +-1), and \\header/\\footer destinations are counted. One-page documents are re-encoded under all 27 placement combinations and must give identical strings.",
   note="trusted: reader; sentinel classification of blocks"),
 "C07": dict(cat="exploration", ref="5/C07",
   technique="runtime monitoring: \\clbrdrt/\\clbrdrb/\\clbrdrl/\\clbrdrr of parsed rows vs the border hierarchy, clause by clause",
   text="Random border-style choices for rtf_page.border_first/last and rtf_body.border_first/last with all header modes, footnote/source forms, placements, page counts and strategies are rendered by the real library; the first/last table row of the document, the last table row before every page break, the first data row of every page and every other data-cell edge are read back and compared with the hierarchy of the statement. Empty settings accept both readings; boundary rows on which the user configured an own border are skipped (quantifier: user borders on interior rows).",
   note="trusted: reader; body border_first/last scalar; matrix-shaped user borders bound to the original row on every page"),
 "C08": dict(cat="exploration", ref="5/C08",
   technique="runtime monitoring: \\cellx vectors of every parsed table row compared with the configured table width and the proportional division",
   text="Generated tables (1..12 columns, explicit/default relative widths, custom table widths, all header modes, page_by/subline_by removing columns at any position, table footnote/source, multi-section documents, components reused from an earlier document) are encoded by the real library; every parsed row must end at round(col_width*1440) +-1, data rows must divide that width in proportion to the displayed columns' col_rel_width, and header rows without own widths must line up cell by cell with the data columns.",
   note="trusted: reader; 1 twip tolerance; headers with own widths / spanning rows only need the right edge"),
 "C09": dict(cat="exploration", ref="5/C09",
   technique="runtime monitoring: character / paragraph / cell / border properties of every sentinel-tagged data cell read back and compared with an independent broadcast rule; metamorphic unpaginated twin",
   text="Tables whose every data cell carries its original (row, col) are rendered by the real library with each body attribute drawn in scalar / per-column / matrix shape, at page sizes from one to many pages, with 0..3 columns removed by page_by/subline_by under all strategies; for every cell the font, size, style flags, text/background colour (resolved through the parsed colour table), justification, indents, spacing, hyphenation, border style/width/colour per side, vertical alignment, row height and row justification are compared with value[r mod R][c mod C] of the user's attribute; paginated documents are also compared cell by cell with their unpaginated twin.",
   note="trusted: reader; page-boundary top/bottom edges exempt (C07); row-level properties taken at the first displayed column"),
 "C10": dict(cat="exploration", ref="5/C10",
   technique="runtime monitoring: bytes of the file written by write_rtf decoded by an independent byte-level RTF reader and compared with the input text",
   text="The real write_rtf writes documents whose body cells sweep the Unicode scalar values (thorough: all 1.1M minus controls/metacharacters, as single characters and packed 32 per cell; quick: U+0020..U+2FFF, boundary points and a stratified sample) with conversion on and off, and whose other text positions (header, title, subline, footnote/source as table and paragraph, page_by and subline_by headings, page header/footer) carry Latin-1, boundary and sampled characters; the file BYTES are decoded per RTF rules and must read back as the original text, with every \\u in the signed 16-bit range and its fallback skipped correctly.",
   note="trusted: reader's byte decoding (cp1252 for raw high bytes, as Word/LibreOffice); C0/C1 controls and raw \\ { } outside the quantifier"),
 "C11": dict(cat="exploration", ref="5/C11",
   technique="runtime monitoring: reader-decoded event lists (characters with script state, line breaks, page fields) vs an independent reference converter; emitter-level hook on TextContent._convert_special_chars for the verbatim clauses",
   text="All 682 table commands x 9 context templates, all ordered pairs (thorough: triples) of the special sequences, random mixed texts and every component kind with default/overridden/per-cell text_convert are rendered by the real library; the rendered run is read back as an event list and must equal the output of a reference converter written from the statement. Unknown commands and conversion-off texts, which a reader cannot observe, are checked at a hook on the emitter's return value.",
   note="trusted: reader; latex_to_char dictionary as data; one open known finding (blank after a comparison sign produced from a literal digraph, pinned by an existing test)"),
 "C12": dict(cat="exploration", ref="5/C12",
   technique="runtime monitoring: every colour/font reference of the parsed output resolved through the parsed colour/font tables; state hook on get_rtf_color_index",
   text="All 657 named colours (each at least once) and random palettes are placed on every component as text/background/border colour in single-section, multi-section and figure documents; every \\cf/\\cb/\\chcbpat/\\brdrcf index in the parsed output must lie inside the document's own colour table and, for sentinel-tagged elements, resolve to the RGB of the requested name (0 <=> default); every \\f must be a font-table entry of the requested number and mapped name. A hook checks that the colour set active at each index lookup is the encoding document's own.",
   note="trusted: reader; repository colour dictionary as data (name -> RGB); matrix colours only on one-page tables"),
 "C13": dict(cat="exploration", ref="5/C13",
   technique="runtime monitoring: parsed group_by cells per page vs an independent suppression rule; exception class observed for non-contiguous keys; exhaustive small key sequences",
   text="All key sequences over {a,b,null} up to the stated lengths for 1-3 group_by levels are rendered by the real library at several page sizes; the parsed group_by cells must be blank exactly for true repeats not at a page start; non-contiguous keys must raise ValueError and contiguous ones must not. Random longer sequences with int/str keys and page_by/subline_by on other columns widen the reach.",
   note="trusted: reader; page starts are taken from the parsed output (first data row of each page)"),
 "C14": dict(cat="exploration", ref="5/C14",
   technique="runtime monitoring: offline checker over recorded encode histories, each run in a forked child, against fresh-interpreter baselines",
   text="Histories of prior operations (construct / encode / encode twice / failing encode) over a pool of ~30 documents (incl. near twins: the same attribute values under other palettes / sizes), with and without sharing equal-valued component objects, are executed on the real library; the target's string must equal the string a fresh interpreter produces for the same spec, a second encode must equal the first, DataFrames must be unchanged and the colour context empty after every encode. All histories of length <=1 (quick) / <=2 (thorough) are enumerated, longer ones sampled. A second family of histories builds and encodes the target object with OTHER texts, then edits its text components in place (nested attribute assignment) to the pool values and encodes again - the result must again equal the fresh-interpreter string, so nothing may be memoised on the document or its components.",
   note="trusted: a fresh `python -c` interpreter as the reference; os.fork isolation of histories (watchdog -> inconclusive)"),
 "C15": dict(cat="exploration", ref="5/C15",
   technique="runtime monitoring under a deterministic sys.monitoring baton scheduler: systematic enumeration of single-preemption thread schedules at library call boundaries, sampled deeper schedules; free-running thread stress in fresh interpreters against solo baselines",
   text="Threads encode different coloured documents under a scheduler that preempts a thread at a chosen library function-call boundary and hands the baton to a chosen thread; every single-preemption schedule of the listed document pairs is executed (both directions), plus sampled schedules with 2-4 preemptions and 3 threads. Each thread's string must equal its solo string. Evidence reports schedules run, preemptions actually taken, distinct preemption sites and distinct interleavings of the colour-state operations observed. Two-preemption schedules are additionally enumerated on a grid (denser early in the encode, where the shared colour state is set up), and every pair is also started cold in fresh interpreters. A free-running arm (unscheduled threads in fresh interpreters, 1 microsecond switch interval, results compared with solo baselines) covers thread switches between bytecodes, which the scheduler does not produce.",
   note="granularity: Python function entries inside src/rtflite; one preemption exhaustive, more sampled; CPython 3.12 sys.monitoring trusted"),
 "C16": dict(cat="exploration", ref="5/C16",
   technique="runtime monitoring: picture destinations of the parsed output compared with the generated image files",
   text="Generated PNG/JPEG/EMF files (arbitrary dimensions in their headers, payload lengths around the hex line wrap) are embedded by the real library; the parsed picture payload must equal the file bytes, with the format's blip word, the pixel size from the image header, the configured display size per position (last value reused) and captions on exactly the selected pages.",
   note="trusted: reader; EMF pixel size only required to be positive; display size within 1 twip"),
 "C17": dict(cat="exploration", ref="5/C17",
   technique="runtime monitoring: parsed page signatures of the assembled file vs those of each input file",
   text="1..6 real rtflite outputs (tables, multi-section, figure documents, mixed geometry, coloured or not) are written with write_rtf and combined with assemble_rtf; the assembled file must parse without structural/lexical error, its page-signature sequence must be the concatenation of the inputs', and each input's first page must restate that input's geometry; degenerate calls (single, empty, missing input) are observed on the file system.",
   note="trusted: reader; page signature = ordered block kinds, texts, cell boundaries, picture hashes"),
 "C18": dict(cat="fault_enumeration", ref="5/C18",
   technique="runtime monitoring with fault injection: sys.monitoring failpoint at every library call boundary of each export, converter stubs, file-system snapshots and audit-hook trace as oracle",
   text="For each listed (exporter, document, target state) the number N of library function entries of a clean export is measured and the export is re-run N times with an exception injected at boundary k=1..N; converter stubs fail before/after writing or return malformed results; after every run the target directory and a private TMPDIR are snapshotted (names, sizes, SHA-256) and compared with the all-or-nothing rule, the audit trace is checked for a write-open of the target before rtf_encode returned, and on success the target must hold exactly the inner rtf_encode string / the stub's bytes. Target file names include glob/regex/shell metacharacters, blanks, several dots and non-ASCII; the real LibreOfficeConverter is also driven against a fake soffice executable.",
   note="one fault per run; faults are Python exceptions at function entries inside src/rtflite (not I/O errors inside the standard library); LibreOffice replaced by stubs"),
 "C19": dict(cat="exploration", ref="5/C19",
   technique="runtime monitoring: exception class observed at the real constructors for generated invalid configurations",
   text="Each validated field of every component class is driven with one invalid value at a random position of a scalar / flat / nested container among valid values (plus the structural cases); the monitor records the exception class raised by the real constructor. Each case has a valid twin that must be accepted, so the generator cannot hide behind its own invalid surroundings.",
   note="only the invalidity classes named in the statement; shapes limited to those the annotations admit"),
 "C20": dict(cat="exploration", ref="5/C20",
   technique="runtime monitoring: relational assertions on observed return values of get_string_width",
   text="The real get_string_width is called on generated (string, font, size, unit, dpi) tuples and the algebraic relations of the statement are asserted on the observed values; font-number->file map cross-checked by measuring the bundled file directly with Pillow.",
   note="trusted: Pillow/FreeType metrics; FreeType 1/64 px quantum allowance on the 1% scaling clause; U+00AD excluded"),
}

def main():
    checks = []
    for pid in ids:
        c = CHECKS.get(pid)
        if not c:
            continue
        checks.append({
            "property_id": pid,
            "quick_cmd": f"./check {pid} --tier quick",
            "thorough_cmd": f"./check {pid} --tier thorough",
            "evidence_file": f"evidence/{pid}.json",
            "replay_cmd_template": f"./check {pid} --replay {{path}}",
            "engine": "rtfmon",
            "level_claimed": {"category": c["cat"], "text": c["text"], "design_ref": "DESIGN.md section " + c["ref"]},
            "level_note": c["note"],
            "technique": c["technique"],
        })
    na = [{"property_id": i, "reason": "check not built yet (work in progress; runtime monitoring applies, see DESIGN.md section 5)"}
          for i in ids if i not in CHECKS]
    m = {
        "version": 1,
        "setup_cmd": "PYTHONPATH=/verif /venv/bin/python -m compileall -q rtfmon && PYTHONPATH=/verif:/repo/src /venv/bin/python -m rtfmon.selftest",
        "hooks": {"guard": "RTFLITE_VERIF",
                  "enable": "no source hooks are needed: monitors attach from the harness at run time (class attributes patched before first use, sys.monitoring callbacks); checks import rtflite from /repo/src",
                  "baseline_off_cmd": "cd /repo && /venv/bin/python -m pytest -q -p no:cacheprovider --timeout=900",
                  "source_commits": [], "add_only": True},
        "engines": [{"name": "rtfmon", "path": "rtfmon/", "serves_properties": sorted(CHECKS),
                     "kind_free_text": "runtime monitoring harness: generated workloads run through the real library in sharded subprocesses; independent RTF reader, in-process hooks, sys.monitoring scheduler and failpoint injector as oracles"}],
        "checks": checks,
        "notes": "Known findings and fix: commits are listed in known_findings.json; see DESIGN.md.",
        "not_applicable": na,
    }
    json.dump(m, open(os.path.join(HERE, "MANIFEST.json"), "w"), indent=1)
    print("claimed:", [c["property_id"] for c in checks], "not yet:", [x["property_id"] for x in na])

main()
