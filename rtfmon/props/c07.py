"""C07 - table edges are closed by the documented border hierarchy on every page."""
from __future__ import annotations

import random

from .. import expect as E
from .. import gen as G
from .. import harness as H
from .. import reader as R
from ..spec import strip_meta

PID = "C07"
LEVEL = "exploration"
RULE = ("rtf_page.border_first/last and rtf_body.border_first/last drawn from the 16 styles (incl. none) x header "
        "mode {default, explicit, two-row, none} x footnote/source {table, paragraph, absent} x placements x 1..many "
        "pages x strategies {plain, page_by (spanning / new_page column), subline_by} x user border_top/bottom/left/"
        "right as scalar, per-column or matrix; multi-section documents for the first/last "
        "clauses. non-trivial = >=2 pages or a table-rendered footnote/source; distinct by spec hash")
ASSUMPTIONS = ["a non-empty page/body border setting must appear exactly; for an empty setting ('') the statement can "
               "be read as 'no border' or 'no override' and both are accepted",
               "boundary cells whose own user border for that edge is non-empty are skipped (the quantifier puts "
               "per-cell user borders on interior rows)",
               "inner right edges are the neighbour's left edge; only an emitted one must equal the user's value",
               "matrix-shaped user borders are bound to the original row (C09's rule) on every page"]
DECIDING = ["docs_parsed", "first_row_top_checks", "last_row_bottom_checks", "page_break_bottom_checks",
            "page_first_data_row_checks", "interior_edges_checked"]
FLOOR = {"quick": 1500, "thorough": 25000}


def plan(tier, seed):
    per = 200 if tier == "quick" else 2200
    return [{"n": per} for _ in range(16)]


def classify(v):
    return (v.get("detail") or {}).get("mech")


def style_of(cdef, side):
    b = cdef.borders.get(side)
    return b.get("style") if b else None


def gen_spec(rng):
    if rng.random() < 0.12:
        spec = G.gen_multi_spec(rng, nrow=rng.choice([60, 8]), attrs_p=0.0, rich=0.0)
        spec["page"] = {k: v for k, v in spec.get("page", {}).items() if k in ("nrow", "orientation")}
        spec["page"]["border_first"] = rng.choice(G.BORDERS)
        spec["page"]["border_last"] = rng.choice(G.BORDERS)
        spec["page"]["nrow"] = 200
        for k in ("footnote", "source"):
            if isinstance(spec.get(k), dict):
                for b in ("border_left", "border_right", "border_top", "border_bottom"):
                    spec[k].pop(b, None)
        return spec
    strategy = rng.choice(["plain", "plain", "plain", "page_by", "page_by_new", "subline", "nested",
                           "subline_page_by"])
    multi = rng.random() < 0.7
    n = rng.randint(8, 40) if multi else rng.randint(1, 5)
    big = rng.random() < 0.04
    if big:
        # pages far longer than the default 40 rows (one block / chunk of any internal batching is exceeded)
        n, multi = rng.randint(70, 280), True
    spec = G.gen_table_spec(rng, nrows=n, ncols=(1, 3) if big else (1, 5), strategy=strategy, attrs_p=0.0, rich=0.0,
                            header=rng.choice(["default", "explicit", "tworow", "none"]),
                            nrow=rng.randint(5, 12) if multi else 60, page={}, col_rel_width=False, maxruns=3,
                            title=rng.random() < 0.3, subline=False, page_hf=False)
    nc = len(spec["df"]["cols"])
    if isinstance(spec["colheader"], list) and spec["colheader"] and rng.random() < 0.2:
        # a header row whose labels are all empty (a spacer row above the real labels, or the only row) is still
        # the first table row of the document
        hrow = spec["colheader"][rng.choice([0, 0, len(spec["colheader"]) - 1])]
        if isinstance(hrow.get("text"), list) and len(hrow["text"]) >= 2:
            hrow["text"] = ["" for _ in hrow["text"]]
    if spec["colheader"] == "default" and rng.random() < 0.25:
        spec["body"]["as_colheader"] = False
    page = spec.setdefault("page", {})
    page["nrow"] = rng.randint(5, 12) if multi else 60
    if big:
        page["nrow"] = rng.choice([66, 70, 92, 100, 130, 200, 300])
    for k in ("border_first", "border_last"):
        if rng.random() < 0.7:
            page[k] = rng.choice(G.BORDERS)
    for k in ("page_title", "page_footnote", "page_source"):
        if rng.random() < 0.6:
            page[k] = rng.choice(G.PLACES)
    body = spec["body"]
    for k in ("border_first", "border_last"):
        if rng.random() < 0.7:
            body[k] = rng.choice(G.BORDERS)
    for k in ("border_top", "border_bottom", "border_left", "border_right"):
        if rng.random() < 0.35:
            shape = rng.choice(["scalar", "row", "matrix"])
            body[k] = G.shaped(rng, k, n, nc, shape=shape)
    for k in ("footnote", "source"):
        if isinstance(spec.get(k), dict):
            for b in ("border_left", "border_right", "border_top", "border_bottom"):
                spec[k].pop(b, None)
            spec[k]["as_table"] = rng.random() < 0.55
        if isinstance(spec.get(k), dict) and spec[k].get("as_table") and rng.random() < 0.2:
            # several text lines with a bottom border given per line: the row that closes the table is still closed
            # by the page / body setting
            nl = rng.randint(2, 3)
            spec[k]["text"] = [f"{'FN' if k == 'footnote' else 'SR'}{i}" for i in range(nl)]
            spec[k]["border_bottom"] = [[rng.choice(["", "", "dashed", "single"])] for _ in range(nl)]
        if rng.random() < 0.06:
            # "no text" said with an empty list / empty string instead of leaving the component out: nothing is
            # rendered, so the table still has to be closed on its last data row
            spec[k] = {"text": rng.choice([[], ""])}
            if rng.random() < 0.6:
                spec[k]["as_table"] = True
    return spec


def user_row_has(body, dfs, side, r):
    """the user configured a non-empty border on this edge somewhere in data row r"""
    return any(user_border(body, side, r, c) != "" for c in range(len(dfs["cols"])))


def user_border(body, side, r, c):
    default = {"border_top": "", "border_bottom": "", "border_left": "single", "border_right": "single"}
    key = "border_" + side
    return E.broadcast(body.get(key, default[key]), r, c)


def check_single(ctx, spec, doc, case):
    page = spec.get("page", {})
    body = spec["body"]
    dfs = spec["df"]
    disp = E.displayed_columns(dfs, body)
    pbf, pbl = page.get("border_first", "double"), page.get("border_last", "double")
    bbf, bbl = body.get("border_first", "single"), body.get("border_last", "single")
    hdr = spec.get("colheader", "default")
    has_header = hdr != "none" and not (hdr == "default" and not body.get("as_colheader", True))
    spanning = E.spanning_mode(body)
    n = len(doc.pages)
    SIDE = {"top": "t", "bottom": "b", "left": "l", "right": "r"}

    def bad(what, mech=None, **kw):
        kw["mech"] = mech
        ctx.violation(what, case, kw)

    def row_sides(row, side):
        return [style_of(d, SIDE[side]) for d in row.defs]

    def expect_all(row, side, style, what, mech=None, skip_user=None, counter=None):
        """every cell of `row` carries `style` on `side` (non-empty settings only)"""
        if counter:
            ctx.count(counter)
        if style == "":
            ctx.count("empty_setting_accepted_either_way")
            return
        want = E.BORDER_WORD[style]
        got = row_sides(row, side)
        for ci, g in enumerate(got):
            if skip_user is not None and skip_user(ci):
                ctx.count("skipped_user_border_on_boundary_row")
                continue
            if g != want:
                bad(f"{what}: cell {ci} has {g}, expected {want} ('{style}')", mech=mech, got=got, want=want)
                return

    all_rows = []
    for p, pg in enumerate(doc.pages):
        rows = [(role, b) for role, b in E.page_roles(pg) if b.kind == "row"]
        roles_all = [role for role, _ in E.page_roles(pg)]
        if any(role is None for role, _ in rows):
            bad(f"unclassifiable row on page {p + 1}")
            return
        all_rows.append((rows, roles_all))
    flat = [(p, role, b) for p, (rows, _) in enumerate(all_rows) for role, b in rows]
    if not flat:
        return
    # clause 1: top edge of the first table row of the document
    p0, role0, row0 = flat[0]
    if not (spanning and not has_header):
        def skip0(ci, row=row0, role=role0):
            if role != "data":
                return False
            k = E.data_key(row)
            return bool(k) and user_row_has(body, dfs, "top", k[0])
        expect_all(row0, "top", pbf, f"first table row of the document ({role0}) top edge != rtf_page.border_first",
                   skip_user=skip0, counter="first_row_top_checks")
    # clause 2: bottom edge of the last table row of the document
    pl, rolel, rowl = flat[-1]
    mech = None
    last_page_roles = all_rows[-1][1]
    if rolel == "data" and any(r in ("footnote_para", "source_para") for r in last_page_roles):
        mech = None
    if n == 1 and rolel in ("footnote_row", "source_row") and "first" in (page.get("page_footnote", "last"),
                                                                           page.get("page_source", "last")):
        mech = "one_page_first_placement_closes_wrong_row"

    def skipl(ci, row=rowl, role=rolel):
        if role != "data":
            return False
        k = E.data_key(row)
        return bool(k) and user_row_has(body, dfs, "bottom", k[0])
    expect_all(rowl, "bottom", pbl, f"last table row of the document ({rolel}) bottom edge != rtf_page.border_last",
               mech=mech, skip_user=skipl, counter="last_row_bottom_checks")
    # clause 3: last table row before each in-table page break
    for p in range(n - 1):
        rows, roles_all = all_rows[p]
        if not rows:
            continue
        role, row = rows[-1]
        mech = None
        if role == "data" and any(r in ("footnote_para", "source_para") for r in roles_all):
            mech = "no_border_last_when_paragraph_footnote_on_page"

        def skipb(ci, row=row, role=role):
            if role != "data":
                return False
            k = E.data_key(row)
            return bool(k) and user_row_has(body, dfs, "bottom", k[0])
        expect_all(row, "bottom", bbl, f"last table row before the break after page {p + 1} ({role}) bottom edge "
                                       f"!= rtf_body.border_last", mech=mech, skip_user=skipb,
                   counter="page_break_bottom_checks")
    # clause 4: first data row of every page
    for p in range(n):
        rows, _ = all_rows[p]
        drows = [b for role, b in rows if role == "data"]
        if not drows:
            continue
        row = drows[0]
        k = E.data_key(row)
        want = pbf if (p == 0 and not has_header) else bbf
        if p == 0 and not has_header and spanning:
            continue

        def skipt(ci, k=k):
            # only the cells whose OWN top border the user set are exempt; the other cells of that row still
            # carry border_first
            if not k:
                return False
            dcols = E.displayed_columns(dfs, body)
            return ci < len(dcols) and user_border(body, "top", k[0], dcols[ci]) != ""
        expect_all(row, "top", want, f"first data row of page {p + 1} top edge != "
                                     f"{'rtf_page' if (p == 0 and not has_header) else 'rtf_body'}.border_first",
                   skip_user=skipt, counter="page_first_data_row_checks")
    # clause 5: all other data-cell edges carry the user's borders
    for p in range(n):
        rows, _ = all_rows[p]
        idx = [i for i, (role, _) in enumerate(rows) if role == "data"]
        for pos, i in enumerate(idx):
            row = rows[i][1]
            k = E.data_key(row)
            if not k or len(row.defs) != len(disp):
                continue
            r = k[0]
            first_on_page = pos == 0
            last_row_on_page = i == len(rows) - 1
            for ci, cdef in enumerate(row.defs):
                c = disp[ci]
                for side in ("top", "bottom", "left", "right"):
                    if side == "top" and first_on_page:
                        continue
                    if side == "bottom" and (last_row_on_page or (p == n - 1 and i == idx[-1])):
                        continue
                    want = E.BORDER_WORD[user_border(body, side, r, c)]
                    present = SIDE[side] in cdef.borders
                    got = style_of(cdef, SIDE[side])
                    if side == "right" and ci < len(disp) - 1:
                        if not present:
                            continue
                    ctx.count("interior_edges_checked")
                    if got != want:
                        bad(f"data cell d{r}c{c} {side} edge is {got}, the user's border_{side} there is {want}",
                            cell=[r, c], side=side)
                        return


def check_multi(ctx, spec, doc, case):
    page = spec.get("page", {})
    pbf, pbl = page.get("border_first", "double"), page.get("border_last", "double")
    rows = [b for pg in doc.pages for role, b in E.page_roles(pg) if b.kind == "row"]
    if not rows:
        return
    ctx.count("first_row_top_checks")
    sec0 = spec["sections"][0]
    h0 = sec0.get("colheader", "default")
    no_hdr0 = h0 == "none" or (h0 == "default" and not sec0.get("body", {}).get("as_colheader", True)) or \
        (spec.get("multi_header") == "flat" and h0 == "none")
    if E.spanning_mode(sec0.get("body", {})) and no_hdr0:
        ctx.count("top_edge_clause_excluded(page_by_without_column_headers)")
    elif pbf != "":
        got = [style_of(d, "t") for d in rows[0].defs]
        if any(g != E.BORDER_WORD[pbf] for g in got):
            ctx.violation(f"multi-section: first table row top edge {got} != rtf_page.border_first '{pbf}'", case,
                          {"mech": None})
    ctx.count("last_row_bottom_checks")
    if pbl != "":
        got = [style_of(d, "b") for d in rows[-1].defs]
        if any(g != E.BORDER_WORD[pbl] for g in got):
            ctx.violation(f"multi-section: last table row bottom edge {got} != rtf_page.border_last '{pbl}'", case,
                          {"mech": None})
    ctx.count("multi_section_docs")


def check_spec(ctx, spec):
    case = strip_meta(spec)
    o = H.build_and_encode(spec)
    if o.stage == "build":
        ctx.count("rejected_at_construction")
        return
    if o.stage == "encode":
        ctx.case(case, True)
        info = H.exc_info(o.exc)
        ctx.violation(f"rtf_encode raised {info['exc']} @ {info['where']}", case, info)
        return
    doc = R.parse(o.out)
    ctx.count("docs_parsed")
    n = len(doc.pages)
    tbl = any(isinstance(spec.get(k), dict) and spec[k].get("as_table") for k in ("footnote", "source"))
    ctx.case(case, n >= 2 or tbl)
    ctx.sample({"pages": n, "page": spec.get("page"), "body_borders": {k: v for k, v in spec.get("body", {}).items()
                                                                        if k.startswith("border_")},
                "colheader": spec.get("colheader") if not isinstance(spec.get("colheader"), list) else "explicit"}, limit=3)
    if doc.errors:
        ctx.violation("output not well-formed", case, {"errors": str(doc.errors[:3])})
        return
    if spec.get("kind") == "multi":
        check_multi(ctx, spec, doc, case)
    else:
        check_single(ctx, spec, doc, case)


def run_shard(desc, ctx):
    rng = random.Random(desc["seed"])
    for _ in range(desc["n"]):
        check_spec(ctx, G.maybe_prior(rng, gen_spec(rng)))


def replay(data, ctx):
    check_spec(ctx, data["case"])
