#!/usr/bin/env python3
"""Regenerate the seed table of DESIGN.md section 12.1 from seeded/*/meta.json."""
import glob, json, re
p = '/verif/DESIGN.md'
s = open(p).read()
rows = []
missed = 0
for f in sorted(glob.glob('/verif/seeded/*/meta.json')):
    m = json.load(open(f))
    if m.get("missed_at_first"):
        missed += 1
    rows.append("| {} | {} | {} | {} |".format(
        m["seed"], (m.get("needs_to_manifest") or "")[:230].replace("\n", " ").replace("|", "/"),
        "; ".join(m["caught_by"]), m.get("missed_at_first") or "-"))
start = s.index("| seed | what it needs to manifest | caught by | missed at first because |")
end = s.index("\nWhat the misses taught")
hdr = "| seed | what it needs to manifest | caught by | missed at first because |\n|---|---|---|---|\n"
s = s[:start] + hdr + "\n".join(rows) + "\n" + s[end:]
n = len(rows)
s = re.sub(r"\d+ changes; \d+ were caught by the quick tier as it stood, \d+ were missed at first",
           f"{n} changes; {n - missed} were caught by the quick tier as it stood, {missed} were missed at first", s)
s = re.sub(r"all \d+ are caught now", f"all {n} are caught now", s)
open(p, 'w').write(s)
print(n, "seeds,", missed, "missed at first")
