"""C17 - assemble_rtf yields one well-formed document with every input in order."""
from __future__ import annotations

import contextlib
import hashlib
import io
import os
import random
import shutil
import tempfile

from .. import gen as G
from .. import reader as R
from .. import spec as S
from ..spec import strip_meta

PID = "C17"
LEVEL = "exploration"
RULE = ("1..6 input documents drawn from the C01 generators (single/multi-page tables, multi-section, "
        "figure documents, portrait/landscape/custom paper, page header/footer, coloured or not) written by "
        "write_rtf and combined by assemble_rtf in random order; plus the degenerate calls (single input, "
        "empty list, missing input with and without a pre-existing output). non-trivial = >=2 inputs of which "
        ">=1 has >=2 pages or differing geometry; distinct by hash of the input specs")
ASSUMPTIONS = ["page content signature = ordered (kind, texts, cellx, picture hash) of the non-spacer blocks",
               "a second \\colortbl group inside the assembled file is not a well-formedness error"]
DECIDING = ["assemblies_parsed", "pages_compared", "geometry_checks", "degenerate_calls"]
FLOOR = {"quick": 300, "thorough": 5000}


def plan(tier, seed):
    per = 60 if tier == "quick" else 500
    return [{"n": per} for _ in range(16)]


def classify(v):
    d = v.get("detail") or {}
    if d.get("mech"):
        return d["mech"]
    return None


def page_sig(page):
    out = []
    for b in R.content_blocks(page):
        if b.kind == "para":
            out.append(("para", b.text))
        elif b.kind == "row":
            out.append(("row", tuple(b.texts), tuple(d.right for d in b.defs)))
        else:
            out.append(("pict", hashlib.sha1(b.data).hexdigest()[:12], b.props.get("picwgoal")))
    return out


def gen_input(rng):
    r = rng.random()
    pool = G.colors()[:40]
    colored = rng.random() < 0.4
    cp = pool if colored else [""]
    if r < 0.6:
        return G.gen_table_spec(rng, nrows=(1, 25), ncols=(1, 5), nrow=rng.choice([None, 4, 7, 12]),
                                attrs_p=0.1 if colored else 0.0, color_pool=cp,
                                attr_names=["text_color", "text_background_color", "text_format", "text_font"])
    if r < 0.75:
        return G.gen_multi_spec(rng, nrow=rng.choice([None, 6, 10]), color_pool=cp,
                                attrs_p=0.1 if colored else 0.0)
    return G.gen_figure_spec(rng, nfig=(1, 3), color_pool=cp, rich=0.4 if colored else 0.0)


def check_case(ctx, specs, td, repeat=None, form="str"):
    from rtflite.assemble import assemble_rtf
    case = {"specs": [strip_meta(s) for s in specs], "order": repeat, "form": form}
    paths = []
    docs = []
    for k, spec in enumerate(specs):
        sub = os.path.join(td, f"in{k}")
        os.makedirs(sub, exist_ok=True)
        try:
            d = S.build(spec, sub)
            p = os.path.join(td, f"input{k}.rtf")
            with contextlib.redirect_stdout(io.StringIO()):
                d.write_rtf(p)
        except Exception as e:  # noqa
            ctx.count("input_not_producible")
            return
        paths.append(p)
        docs.append(R.parse(open(p, encoding="utf-8").read()))
    if any(d.errors for d in docs):
        ctx.count("input_itself_malformed(C01)")
        return
    # "in any order": the same file may be listed more than once
    if repeat and len(paths) >= 1:
        order = repeat
        paths = [paths[i % len(paths)] for i in order]
        docs = [docs[i % len(docs)] for i in order]
        specs = [specs[i % len(specs)] for i in order]
        ctx.count("assemblies_with_repeated_input")
    out = os.path.join(td, "assembled.rtf")
    geoms = {tuple(sorted(d.setup.items())) for d in docs}
    ctx.case(case, len(specs) >= 2 and (any(len(d.pages) >= 2 for d in docs) or len(geoms) >= 2))
    ctx.sample({"inputs": [{"kind": s.get("kind"), "pages": len(d.pages), "setup": d.setup,
                            "colortbl": d.colors is not None} for s, d in zip(specs, docs)]}, limit=3)
    kinds = [s.get("kind", "table") for s in specs]
    has_ct = [d.colors is not None for d in docs]
    mech = None
    if any(kinds[i] == "figure" and has_ct[i] for i in range(1, len(specs))):
        mech = "figure_input_with_colortbl_not_first"
    # the file names as strings, as pathlib.Path objects, mixed, or as a tuple
    import pathlib
    arg = list(paths)
    if form == "path":
        arg = [pathlib.Path(p) for p in arg]
    elif form == "mixed":
        arg = [pathlib.Path(p) if i % 2 else p for i, p in enumerate(arg)]
    elif form == "path_out":
        arg, out = [pathlib.Path(p) for p in arg], pathlib.Path(out)
    ctx.distinct("input_forms", form)
    try:
        assemble_rtf(arg, out)
    except Exception as e:  # noqa
        ctx.violation(f"assemble_rtf raised {type(e).__name__}: {str(e)[:100]}", case, {"exc": repr(e)[:300]})
        return
    if not os.path.exists(out):
        ctx.violation("assemble_rtf wrote no output", case, None)
        return
    raw = open(out, encoding="utf-8").read()
    if len(specs) == 1:
        ctx.count("single_input_copies")
        if raw != open(paths[0], encoding="utf-8").read():
            ctx.violation("single input is not reproduced unchanged", case, None)
        return
    doc = R.parse(raw)
    ctx.count("assemblies_parsed")
    if doc.errors:
        ctx.violation("assembled file is not well-formed: " + str(doc.errors[:2]), case,
                      {"errors": str(doc.errors[:6]), "kinds": kinds, "has_colortbl": has_ct, "mech": mech})
        return
    want = [page_sig(p) for d in docs for p in d.pages]
    got = [page_sig(p) for p in doc.pages]
    ctx.count("pages_compared", len(want))
    if got != want:
        i = next((j for j, (a, b) in enumerate(zip(want, got)) if a != b), min(len(want), len(got)))
        ctx.violation(f"page sequence differs at page {i}: {len(want)} expected, {len(got)} read", case,
                      {"page": i, "want": str(want[i])[:300] if i < len(want) else None,
                       "got": str(got[i])[:300] if i < len(got) else None, "kinds": kinds,
                       "has_colortbl": has_ct, "mech": mech})
        return
    # geometry of the first page of every input: what is STATED there ...
    pos = 0
    for k, d in enumerate(docs):
        ctx.count("geometry_checks")
        g = dict(doc.pages[pos].setup) if pos else dict(doc.setup)
        w = dict(d.setup)
        if g != w:
            ctx.violation(f"input {k} starts with geometry {g}, its own is {w}", case,
                          {"input": k, "got": g, "want": w})
        pos += len(d.pages)
    # ... and what is IN EFFECT there: a reader keeps paper size and margins until they are restated, and starts
    # from RTF's own defaults (which are not zero)
    RTF_DEFAULTS = {"paperw": 12240, "paperh": 15840, "margl": 1800, "margr": 1800, "margt": 1440, "margb": 1440}

    def effective(pages_setup):
        cur = dict(RTF_DEFAULTS)
        out = []
        for st in pages_setup:
            cur = dict(cur)
            cur.update({k2: v for k2, v in st.items() if k2 in RTF_DEFAULTS})
            out.append(cur)
        return out
    eff = effective([doc.setup] + [pg.setup for pg in doc.pages[1:]])
    pos = 0
    for k, d in enumerate(docs):
        own = effective([d.setup])[0]
        if pos < len(eff) and eff[pos] != own:
            ctx.violation(f"input {k}: geometry in effect on its first page {eff[pos]} differs from the geometry in "
                          f"effect when it is read alone {own}", case, {"input": k, "got": eff[pos], "want": own})
            break
        pos += len(d.pages)


def degenerate(ctx, rng, td):
    from rtflite.assemble import assemble_rtf
    ctx.count("degenerate_calls")
    out = os.path.join(td, "none.rtf")
    assemble_rtf([], out)
    if os.path.exists(out):
        ctx.violation("empty input list wrote an output file", {"inputs": []}, None)
    # missing input, output absent / present
    good = os.path.join(td, "good.rtf")
    with contextlib.redirect_stdout(io.StringIO()):
        S.build(G.gen_table_spec(rng, nrows=(1, 3), ncols=(1, 2)), td).write_rtf(good)
    for pre in (False, True):
        out = os.path.join(td, f"out{int(pre)}.rtf")
        if pre:
            open(out, "w").write("ORIGINAL")
        order = [good, os.path.join(td, "missing.rtf")]
        rng.shuffle(order)
        ctx.count("degenerate_calls")
        try:
            assemble_rtf(order, out)
            ctx.violation("missing input did not raise", {"inputs": "good+missing", "pre": pre}, None)
        except FileNotFoundError:
            pass
        except Exception as e:  # noqa
            ctx.violation(f"missing input raised {type(e).__name__}", {"inputs": "good+missing", "pre": pre}, None)
        if pre and open(out).read() != "ORIGINAL":
            ctx.violation("missing input: pre-existing output was modified", {"pre": pre}, None)
        if not pre and os.path.exists(out):
            ctx.violation("missing input: an output file was created", {"pre": pre}, None)


def run_shard(desc, ctx):
    rng = random.Random(desc["seed"])
    for _ in range(desc["n"]):
        td = tempfile.mkdtemp(prefix="rtfmon-c17-")
        try:
            k = rng.choice([1, 2, 2, 3, 3, 4, 6])
            repeat = None
            if rng.random() < 0.3:
                # e.g. [A, B, A]: every input at least once, some again, any order
                repeat = list(range(k)) + [rng.randrange(k) for _ in range(rng.randint(1, 2))]
                rng.shuffle(repeat)
            check_case(ctx, [gen_input(rng) for _ in range(k)], td, repeat,
                       form=rng.choice(["str", "str", "path", "mixed", "path_out"]))
        finally:
            shutil.rmtree(td, ignore_errors=True)
    td = tempfile.mkdtemp(prefix="rtfmon-c17-")
    try:
        degenerate(ctx, rng, td)
    finally:
        shutil.rmtree(td, ignore_errors=True)


def replay(data, ctx):
    td = tempfile.mkdtemp(prefix="rtfmon-c17-")
    try:
        case = data["case"]
        if isinstance(case, dict) and "specs" in case:
            for sp in case["specs"]:
                if sp.get("kind") == "figure":
                    for f in sp["figure"]["files"]:
                        f.setdefault("_fmt", "png")
            check_case(ctx, case["specs"], td, case.get("order"), form=case.get("form", "str"))
        else:
            degenerate(ctx, random.Random(0), td)
    finally:
        shutil.rmtree(td, ignore_errors=True)
