"""C09 - cell formatting follows the data cell.

Every data cell is sentinel-tagged d<row>c<col> (original position).  The
character, paragraph, cell and border properties read back for the cell must
be those the body attributes specify for that ORIGINAL (row, col) under the
broadcast rule value[r mod R][c mod C], whatever the page breaks and removed
columns.  Metamorphic twin: the same spec with nrow = 100000.
"""
from __future__ import annotations

import random

from .. import expect as E
from .. import gen as G
from .. import harness as H
from .. import reader as R
from ..spec import strip_meta

PID = "C09"
LEVEL = "exploration"
# a few fixed documents are encoded before and after every shard's workload (harness.Sentinels)
SENTINELS = True
RULE = ("tables of 1..40 rows x 1..6 columns, every cell tagged with its original position; each body attribute "
        "(font, size, format, text/background colour, justification, indents, spacing, hyphenation, border style / "
        "width / colour per side, vertical alignment, cell height, row justification) drawn with probability 0.35 in "
        "shape scalar / 1 x ncol / nrow x ncol with random legal values; nrow from one page to many; removal of "
        "0..3 columns by page_by / subline_by at any position; the three strategies; each paginated document also "
        "compared with its unpaginated twin. non-trivial = a matrix- or row-shaped attribute on a table with >=2 "
        "pages or >=1 removed column; distinct by spec hash")
ASSUMPTIONS = ["page-boundary rows are exempt for the top/bottom edge that C07 owns",
               "inner right edges are not emitted (neighbour's left edge); an emitted one must match",
               "row-level properties (cell height -> \\trgaph, cell_justification -> \\trq*) are taken from the row's "
               "first displayed column, as a table row has one value"]
DECIDING = ["docs_parsed", "cells_checked", "matrix_attr_cells_checked", "cells_on_later_pages_checked",
            "twin_cells_compared"]
FLOOR = {"quick": 2000, "thorough": 20000}

ATTRS = ["text_font", "text_font_size", "text_format", "text_color", "text_background_color",
         "text_justification", "text_indent_first", "text_indent_left", "text_indent_right", "text_space",
         "text_space_before", "text_space_after", "text_hyphenation", "border_left", "border_right", "border_top",
         "border_bottom", "border_width", "border_color_left", "border_color_right", "border_color_top",
         "border_color_bottom", "cell_vertical_justification", "cell_height", "cell_justification"]
DEFAULTS = {"text_font": 1, "text_font_size": 9, "text_format": "", "text_color": "", "text_background_color": "",
            "text_justification": "c", "text_indent_first": 0, "text_indent_left": 0, "text_indent_right": 0,
            "text_space": 1, "text_space_before": 15, "text_space_after": 15, "text_hyphenation": False,
            "border_left": "single", "border_right": "single", "border_top": "", "border_bottom": "",
            "border_width": 15, "border_color_left": "", "border_color_right": "", "border_color_top": "",
            "border_color_bottom": "", "cell_vertical_justification": "top", "cell_height": 0.15,
            "cell_justification": "c"}
RGB = None


def rgb(name):
    global RGB
    if RGB is None:
        from rtflite.dictionary.color_table import name_to_rgb
        RGB = dict(name_to_rgb)
    return tuple(RGB[name])


def plan(tier, seed):
    per = 150 if tier == "quick" else 1600
    return [{"n": per} for _ in range(16)]


def classify(v):
    return (v.get("detail") or {}).get("mech")


def gen_spec(rng):
    strategy = rng.choice(["plain", "plain", "page_by", "page_by_new", "page_by_new_first", "subline",
                           "subline_page_by", "nested"])
    n = rng.choice([rng.randint(1, 6), rng.randint(6, 40)])
    if rng.random() < 0.03:
        n = rng.randint(70, 260)       # long tables / long pages
    pg = {"plain": 0, "page_by": rng.choice([1, 2]), "page_by_new": 1, "page_by_new_first": 1, "subline": 0,
          "subline_page_by": 1, "nested": rng.choice([2, 3])}[strategy]
    sb = {"subline": rng.choice([1, 2]), "subline_page_by": 1}.get(strategy, 0)
    ncols = max(rng.randint(1, 6), pg + sb + 1)
    if rng.random() < 0.1:
        # wide tables: 9..14 columns, the removed grouping columns anywhere among them (also beyond position 7)
        ncols = rng.randint(9, 14)
        n = min(n, 14)
    df, meta = G.gen_df(rng, n, ncols, group_cols=pg, subline_cols=sb, key=False, maxruns=3)
    # every non-grouping cell carries its original position
    grouping = set(meta["page_by"]) | set(meta["subline_by"])
    for j, col in enumerate(df["cols"]):
        if col["name"] not in grouping:
            col["dtype"] = "str"
            col["values"] = [f"d{r}c{j}" for r in range(n)]
    nc = len(df["cols"])
    body = {}
    if pg:
        body["page_by"] = meta["page_by"]
        if strategy in ("page_by_new", "page_by_new_first"):
            body["new_page"] = True
        if strategy == "page_by_new_first":
            body["pageby_row"] = "first_row"
    if sb:
        body["subline_by"] = meta["subline_by"]
    pal = rng.sample(G.colors(), 5)
    shapes = {}
    for a in ATTRS:
        if rng.random() < 0.35:
            shape = rng.choice(["scalar", "row", "matrix", "matrix"])
            shapes[a] = shape
            if a == "cell_justification":
                body[a] = G.shaped(rng, a, n, nc, shape=shape)
            elif a == "text_format":
                body[a] = G.shaped(rng, a, n, nc, shape=shape)
            else:
                body[a] = G.shaped(rng, a, n, nc, shape=shape, color_pool=pal)
    if rng.random() < 0.3:
        body["col_rel_width"] = [rng.choice([1, 2, 3]) for _ in range(nc)]
    spec = {"kind": "table", "df": df, "body": body, "colheader": rng.choice(["default", "none"]), "title": None,
            "page": {"nrow": rng.choice([4, 6, 9, 15, 200] + ([70, 100, 130] if n > 60 else []))},
            "_meta": dict(meta, shapes=shapes)}
    if rng.random() < 0.3:
        spec["footnote"] = {"text": "FN0", "as_table": rng.random() < 0.5}
    if rng.random() < 0.5:
        spec["_forms"] = rng.randint(1, 10 ** 6)      # numpy arrays / DataFrames / tuples for the attributes
    return spec


def expected_cell(body, r, c):
    def get(a):
        return E.broadcast(body.get(a, DEFAULTS[a]), r, c)
    return {a: get(a) for a in ATTRS}


def observe_cell(doc, row, ci):
    cell = row.cells[ci]
    cdef = row.defs[ci]
    run = next((x for x in cell.runs if x.text.strip()), cell.runs[0] if cell.runs else None)
    props = run.props if run else {}

    def col(i):
        if not i:
            return None
        if doc.colors and 0 <= i < len(doc.colors):
            return doc.colors[i]
        return "out-of-range"
    obs = {
        "f": props.get("f"), "fs": props.get("fs"), "b": bool(props.get("b")), "i": bool(props.get("i")),
        "ul": bool(props.get("ul")), "strike": bool(props.get("strike")), "script": props.get("script"),
        "cf": col(props.get("cf")), "cb": col(props.get("cb")), "chcbpat": col(props.get("chcbpat")),
        "just": cell.pprops.get("just"), "fi": cell.pprops.get("fi"), "li": cell.pprops.get("li"),
        "ri": cell.pprops.get("ri"), "sb": cell.pprops.get("sb"), "sa": cell.pprops.get("sa"),
        "sl": cell.pprops.get("sl"), "hyphpar": cell.pprops.get("hyphpar"), "valign": cdef.valign,
        "borders": cdef.borders,
    }
    return obs


def want_color(name):
    return None if (not name or name == "black") else rgb(name)


def compare_cell(exp, obs, skip_top, skip_bottom, is_last_col):
    """-> list of (attribute, expected, observed)"""
    bad = []

    def chk(name, want, got):
        if want != got:
            bad.append((name, want, got))
    chk("text_font", exp["text_font"] - 1, obs["f"])
    chk("text_font_size", round(exp["text_font_size"] * 2), obs["fs"])
    fmt = exp["text_format"] or ""
    chk("text_format:b", "b" in fmt, obs["b"])
    chk("text_format:i", "i" in fmt, obs["i"])
    chk("text_format:u", "u" in fmt, obs["ul"])
    chk("text_format:s", "s" in fmt, obs["strike"])
    chk("text_format:script", "sub" if "_" in fmt else "super" if "^" in fmt else None, obs["script"])
    chk("text_color", want_color(exp["text_color"]), obs["cf"])
    chk("text_background_color", want_color(exp["text_background_color"]), obs["cb"])
    chk("text_background_color(chcbpat)", want_color(exp["text_background_color"]), obs["chcbpat"])
    chk("text_justification", E.JUST_WORD[exp["text_justification"]], obs["just"])
    chk("text_indent_first", exp["text_indent_first"], obs["fi"])
    chk("text_indent_left", exp["text_indent_left"], obs["li"])
    chk("text_indent_right", exp["text_indent_right"], obs["ri"])
    chk("text_space_before", exp["text_space_before"], obs["sb"])
    chk("text_space_after", exp["text_space_after"], obs["sa"])
    chk("text_space", None if exp["text_space"] == 1 else int(exp["text_space"] * 240), obs["sl"])
    chk("text_hyphenation", 1 if exp["text_hyphenation"] else 0, obs["hyphpar"])
    chk("cell_vertical_justification", E.VALIGN_WORD[exp["cell_vertical_justification"]], obs["valign"])
    for side, key in (("left", "l"), ("top", "t"), ("bottom", "b"), ("right", "r")):
        if side == "top" and skip_top or side == "bottom" and skip_bottom:
            continue
        b = obs["borders"].get(key)
        if side == "right" and not is_last_col and b is None:
            continue
        style = E.BORDER_WORD[exp["border_" + side]]
        got_style = b.get("style") if b else None
        chk("border_" + side, style, got_style)
        if b is not None:
            chk("border_width(" + side + ")", exp["border_width"], b.get("w"))
            wc = want_color(exp["border_color_" + side])
            chk("border_color_" + side, wc, b.get("cf_rgb"))
    return bad


MECH = {}


def mech_of(attr, shapes, page_index, removed):
    """no open known finding for C09: every violation is reported"""
    return None


def cell_map(ctx, spec, doc, case, count=True):
    """-> {(r,c): (observed, page, first_on_page, last_on_page, is_last_col, row)}"""
    body = spec["body"]
    disp = E.displayed_columns(spec["df"], body)
    out = {}
    for p, pg in enumerate(doc.pages):
        rows = [(role, b) for role, b in E.page_roles(pg) if b.kind == "row"]
        didx = [i for i, (role, _) in enumerate(rows) if role == "data"]
        for pos, i in enumerate(didx):
            row = rows[i][1]
            if len(row.cells) != len(disp):
                ctx.violation(f"data row has {len(row.cells)} cells, {len(disp)} displayed columns", case, None)
                continue
            for ci, cell in enumerate(row.cells):
                m = E.TAG_DATA.fullmatch(cell.text)
                if not m:
                    continue
                r, c = int(m.group(1)), int(m.group(2))
                obs = observe_cell(doc, row, ci)
                for key, b in obs["borders"].items():
                    i_cf = b.get("cf")
                    b["cf_rgb"] = (doc.colors[i_cf] if i_cf and doc.colors and i_cf < len(doc.colors) else
                                   None if not i_cf else "out-of-range")
                # a heading row directly above / below makes this a boundary row of its segment only for C07
                out[(r, c)] = {"obs": obs, "page": p, "first": pos == 0, "last": i == len(rows) - 1 or pos == len(didx) - 1,
                               "lastcol": ci == len(disp) - 1, "trgaph": row.rprops.get("trgaph"),
                               "rowjust": row.rprops.get("just"), "firstcol": disp[0]}
    return out


def check_spec(ctx, spec):
    case = strip_meta(spec)
    o = H.build_and_encode(spec)
    if o.stage == "build":
        ctx.count("rejected_at_construction")
        ctx.notes.append("rejected: " + repr(o.exc)[:160])
        return
    body = spec["body"]
    shapes = spec.get("_meta", {}).get("shapes") or {a: ("matrix" if isinstance(body.get(a), list) and body[a] and
                                                          isinstance(body[a][0], list) else "row" if isinstance(body.get(a), list)
                                                          else "scalar") for a in ATTRS if a in body}
    if o.stage == "encode":
        ctx.case(case, True)
        info = H.exc_info(o.exc)
        ctx.violation(f"rtf_encode raised {info['exc']} @ {info['where']}: {info['msg'][:60]}", case, info)
        return
    doc = R.parse(o.out)
    ctx.count("docs_parsed")
    n = len(doc.pages)
    removed = len(spec["df"]["cols"]) - len(E.displayed_columns(spec["df"], body))
    shaped = any(s in ("row", "matrix") for s in shapes.values())
    ctx.case(case, shaped and (n >= 2 or removed >= 1))
    ctx.sample({"pages": n, "removed_columns": removed, "shapes": shapes, "nrow": spec["page"]["nrow"]}, limit=3)
    cells = cell_map(ctx, spec, doc, case)
    nrows = len(spec["df"]["cols"][0]["values"])
    disp = E.displayed_columns(spec["df"], body)
    grouping = set(body.get("page_by") or []) | set(body.get("subline_by") or [])
    want_cells = {(r, c) for r in range(nrows) for c in disp if spec["df"]["cols"][c]["name"] not in grouping}
    if set(cells) != want_cells:
        ctx.violation(f"{len(want_cells - set(cells))} data cells missing from the output", case, None)
        return
    reported = set()
    for (r, c), info in sorted(cells.items()):
        exp = expected_cell(body, r, c)
        ctx.count("cells_checked")
        if info["page"] > 0:
            ctx.count("cells_on_later_pages_checked")
        if any(s == "matrix" for s in shapes.values()):
            ctx.count("matrix_attr_cells_checked")
        bad = compare_cell(exp, info["obs"], info["first"], info["last"], info["lastcol"])
        # row-level properties: one value per table row, taken at the row's first displayed column
        rexp = expected_cell(body, r, info["firstcol"])
        if c == info["firstcol"]:
            want_gaph = int(E.twips(rexp["cell_height"]) / 2)
            if info["trgaph"] != want_gaph:
                bad.append(("cell_height", want_gaph, info["trgaph"]))
            if info["rowjust"] != E.ROWJUST_WORD[rexp["cell_justification"]]:
                bad.append(("cell_justification", E.ROWJUST_WORD[rexp["cell_justification"]], info["rowjust"]))
        for attr, want, got in bad:
            base = attr.split(":")[0].split("(")[0]
            key = (base, shapes.get(base if base in shapes else attr.split("(")[0], "default"))
            if key in reported:
                continue
            reported.add(key)
            mech = mech_of(attr, shapes, info["page"], removed)
            ctx.violation(f"cell d{r}c{c} (page {info['page'] + 1}/{n}): {attr} is {got}, body attribute "
                          f"({shapes.get(base, 'default')}) gives {want}", case,
                          {"attr": attr, "want": want, "got": got, "cell": [r, c], "page": info["page"],
                           "shape": shapes.get(base, "default"), "removed": removed, "mech": mech})
    # metamorphic twin: no pagination
    if n >= 2 and "subline_by" not in body and not body.get("new_page"):
        twin = dict(spec)
        twin["page"] = dict(spec["page"], nrow=100000)
        o2 = H.build_and_encode(twin)
        if o2.stage is None:
            doc2 = R.parse(o2.out)
            cells2 = cell_map(ctx, twin, doc2, case)
            for key, info in cells.items():
                i2 = cells2.get(key)
                if i2 is None:
                    continue
                ctx.count("twin_cells_compared")
                a, b = info["obs"], i2["obs"]
                for k in a:
                    if k == "borders":
                        for side in "lr":
                            if a["borders"].get(side) != b["borders"].get(side):
                                ctx.violation(f"cell d{key[0]}c{key[1]}: {side} border differs between paginated and "
                                              f"unpaginated rendering", case, {"mech": None})
                                return
                    elif a[k] != b[k]:
                        ctx.violation(f"cell d{key[0]}c{key[1]}: {k} = {a[k]} paginated (page {info['page'] + 1}) but "
                                      f"{b[k]} unpaginated", case,
                                      {"mech": None})
                        return


def run_shard(desc, ctx):
    rng = random.Random(desc["seed"])
    for _ in range(desc["n"]):
        check_spec(ctx, G.maybe_prior(rng, gen_spec(rng)))


def replay(data, ctx):
    check_spec(ctx, data["case"])
