"""Validate the reader before it is trusted (run by MANIFEST.setup_cmd).

1. hand-written RTF covering every construct the oracles rely on;
2. deliberately malformed inputs, each of which must yield its specific error;
3. every RTF fixture shipped in the repository must parse without error.
"""
from __future__ import annotations

import glob
import sys

from . import reader as R

BS = chr(92)


def rtf(body: str) -> str:
    return "{" + BS + "rtf1" + BS + "ansi" + body + "}"


def expect(cond, msg):
    if not cond:
        print("SELFTEST FAIL:", msg)
        sys.exit(1)


def good_cases():
    n = 0
    # paragraphs, char props, groups
    d = R.parse(rtf(r"{\fonttbl{\f0\froman\fcharset1\fprq2 Times New Roman;}{\f3\fswiss Arial;}}"
                    r"{\colortbl;\red255\green0\blue0;\red0\green0\blue255;}"
                    r"\paperw12240\paperh15840\margl1800"
                    r"{\pard\qc\sb180\fs24{\f3\cf2\b Hello} world\par}"))
    expect(not d.errors, d.errors)
    expect(d.fonts[3]["name"] == "Arial;" and d.fonts[0]["name"].startswith("Times"), d.fonts)
    expect(d.colors == [None, (255, 0, 0), (0, 0, 255)], d.colors)
    expect(d.setup == {"paperw": 12240, "paperh": 15840, "margl": 1800}, d.setup)
    p = d.pages[0].blocks[0]
    expect(p.text == "Hello world", p.text)
    expect(p.runs[0].props == {"fs": 24, "f": 3, "cf": 2, "b": True}, p.runs[0].props)
    expect(p.runs[1].props == {"fs": 24}, p.runs[1].props)
    expect(p.pprops == {"just": "qc", "sb": 180}, p.pprops)
    n += 1
    # table row
    d = R.parse(rtf(r"\trowd\trgaph108\trleft0\trqc\clbrdrl\brdrs\brdrw15\clbrdrt\brdrdb\brdrw15"
                    r"\clvertalt\cellx3000\clbrdrb\brdrs\brdrw15\brdrcf2\cellx6000"
                    r"\pard\ql\fs18{\f0 a}\cell\pard\qr\fs18{\f0 b }\cell\intbl\row\pard"))
    expect(not d.errors, d.errors)
    r = d.pages[0].blocks[0]
    expect(r.kind == "row" and r.texts == ["a", "b "], r.texts)
    expect([c.right for c in r.defs] == [3000, 6000], r.defs)
    expect(r.defs[0].borders["t"]["style"] == "brdrdb" and r.defs[0].borders["l"]["w"] == 15, r.defs)
    expect(r.defs[1].borders["b"]["cf"] == 2 and r.defs[0].valign == "clvertalt", r.defs)
    expect(r.rprops == {"trgaph": 108, "trleft": 0, "just": "trqc"}, r.rprops)
    expect(r.cells[1].pprops["just"] == "qr", r.cells[1].pprops)
    expect(not R.row_wellformed_errors(d), "wellformed")
    n += 1
    # unicode escapes, surrogates, fallback skipping, uc scoping
    d = R.parse(rtf(r"{\pard x\uc1\u8805*y\u-10179*\u-8704*z{\uc2\u945 ab}c\uc0\u946 d\'e9\par}"))
    expect(not d.errors, d.errors)
    expect(d.pages[0].blocks[0].text == "x≥y\U0001F600zαcβdé",
           repr(d.pages[0].blocks[0].text))
    expect(d.u_params == [8805, -10179, -8704, 945, 946], d.u_params)
    n += 1
    # bytes input: raw high bytes decode one at a time in cp1252
    d = R.parse(rtf(r"{\pard caf" + "é" + r"\par}").encode("utf-8"))
    expect(d.pages[0].blocks[0].text == "cafÃ©", repr(d.pages[0].blocks[0].text))
    d = R.parse(rtf(r"{\pard caf" + "é" + r"\par}").encode("latin-1"))
    expect(d.pages[0].blocks[0].text == "café", repr(d.pages[0].blocks[0].text))
    n += 2
    # \'hh is decoded in the code page of the current font's charset
    d = R.parse(rtf(r"{\fonttbl{\f0\froman\fcharset1 A;}{\f1\froman\fcharset161 G;}{\f2\ftech\fcharset2 S;}}"
                    r"{\pard{\f0 \'e9}{\f1 \'e9}{\f2 \'e9x}\par}"))
    expect(d.pages[0].blocks[0].text == "\u00e9\u03b9\uf0e9x", repr(d.pages[0].blocks[0].text))
    n += 1
    # pages, page setup, header/footer destinations, fields, scripts, line
    d = R.parse(rtf(r"{\header{\pard\qr Page \chpgn  of {\field{\*\fldinst NUMPAGES }}\par}}"
                    r"{\footer{\pard F\par}}\paperw100\paperh200"
                    r"{\pard A\super 2\nosupersub b\line c\par}"
                    r"{\pard\fs2\par}\page{\pard\fs2\par}\paperw100\paperh200\margl5"
                    r"{\pard B{\sub 1}\par}"))
    expect(not d.errors, d.errors)
    expect(len(d.pages) == 2 and len(d.headers) == 1 and len(d.footers) == 1, "pages/hdr")
    expect(d.headers[0][0].text == "Page " + R.FIELD_PAGENUM + " of " + R.FIELD_NUMPAGES,
           repr(d.headers[0][0].text))
    expect(d.pages[1].setup == {"paperw": 100, "paperh": 200, "margl": 5}, d.pages[1].setup)
    p0 = R.content_blocks(d.pages[0])
    expect(len(p0) == 1 and p0[0].text == "A2b\nc", repr(p0[0].text))
    expect(p0[0].runs[1].props.get("script") == "super"
           and p0[0].runs[2].props.get("script") is None, p0[0].runs)
    p1 = R.content_blocks(d.pages[1])
    expect(p1[0].runs[1].props.get("script") == "sub", p1[0].runs)
    n += 1
    # picture
    d = R.parse(rtf(r"\qc {\pict\pngblip\picw10\pich20\picwgoal1440\pichgoal2880 89504e47" + "\n" + r"0d0a}\par "))
    expect(not d.errors, d.errors)
    pc = d.pages[0].blocks[0]
    expect(pc.kind == "pict" and pc.data == bytes.fromhex("89504e470d0a"), pc)
    expect(pc.props == {"pngblip": None, "picw": 10, "pich": 20, "picwgoal": 1440,
                        "pichgoal": 2880} and pc.pprops.get("just") == "qc", pc.props)
    n += 1
    # unknown control word is not a lexical error
    d = R.parse(rtf(r"{\pard a\unknowncmd b\par}"))
    expect(not d.errors and d.unknown[0][0] == "unknowncmd", (d.errors, d.unknown))
    n += 1
    return n


def bad_cases():
    cases = [
        (rtf(r"{\pard a\par}") + "}", "unbalanced-close"),
        (rtf(r"{\pard a\par"), "unbalanced-open"),
        (rtf(r"{\pard a\par}") + "x", "content-outside-group"),
        (rtf(r"{\pard a\par}") + "{x}", "content-after-close"),
        ("{" + BS + "rtf2 a}", "no-signature"),
        ("x" + rtf("a"), "no-signature-prefix"),
        (rtf(r"{\pard a\'zz\par}"), "bad-hex"),
        (rtf(r"{\pard a\!b\par}"), "undefined-symbol"),
        (rtf(r"{\pard a\u40006*\par}"), "u-range"),
        (rtf(r"{\pard a\u*\par}"), "missing-param:u"),
        (rtf(r"{\pard {\u945}a\par}"), "u-fallback-cut-by-group"),
        (rtf(r"{\pard \u945\u946*\par}"), "u-fallback-missing"),
        (rtf(r"\trowd\cellx\pard a\cell\row"), "missing-param:cellx"),
        (rtf(r"{\pard a\par}") + BS, "dangling-backslash"),
        (rtf(r"{\pard a\fs99999999999 \par}"), "param-range:fs"),
        (rtf(r"{\pard a\par} stray"), "dangling-text"),
        (rtf(r"{\pard\abcdefghijklmnopqrstuvwxyzabcdefghijk a\par}"), "name-too-long"),
        (rtf(r" stray\trowd\cellx10\pard a\cell\row"), "stray-text-before-row"),
        (rtf(r"\trowd\cellx10\pard a\cell b\row"), "text-after-last-cell"),
    ]
    for src, want in cases:
        d = R.parse(src)
        got = [e[0] for e in d.errors]
        expect(any(g.startswith(want) for g in got), f"{want!r} not in {got} for {src!r}")
    # row-level clauses
    d = R.parse(rtf(r"\trowd\cellx10\cellx20\pard a\cell\row"))
    expect(R.row_wellformed_errors(d)[0][0] == "cell-count", "cell-count")
    d = R.parse(rtf(r"\trowd\cellx20\cellx10\pard a\cell\pard b\cell\row"))
    expect(R.row_wellformed_errors(d)[0][0] == "decreasing-boundary", "decreasing")
    d = R.parse(rtf(r"\trowd\cellx0\pard a\cell\row"))
    expect(R.row_wellformed_errors(d)[0][0] == "nonpositive-boundary", "nonpositive")
    return len(cases) + 3


def fixtures(repo="/repo"):
    files = sorted(glob.glob(repo + "/tests/fixtures/**/*.rtf", recursive=True)
                   + glob.glob(repo + "/docs/articles/rtf/*.rtf"))
    bad = []
    rows = 0
    for f in files:
        try:
            s = open(f, encoding="utf-8").read()
        except UnicodeDecodeError:
            s = open(f, "rb").read()
        d = R.parse(s)
        errs = list(d.errors) + R.row_wellformed_errors(d)
        rows += sum(1 for _ in d.rows())
        if errs:
            bad.append((f, errs[:3]))
    return len(files), rows, bad


def main():
    g = good_cases()
    b = bad_cases()
    nf, rows, bad = fixtures()
    for f, e in bad:
        print("fixture with reader errors:", f, e)
    expect(not bad, "repository fixtures must parse cleanly")
    expect(nf >= 20 and rows > 100, f"too few fixtures parsed ({nf} files, {rows} rows)")
    print(f"reader selftest ok: {g} good constructs, {b} malformed inputs, "
          f"{nf} repository fixtures ({rows} table rows) parsed cleanly")


if __name__ == "__main__":
    main()
