#!/bin/sh
# usage: tools/mutant.sh <patch.diff | rev:COMMIT> ID [ID...]
# Applies a change to a scratch worktree of /repo (never to /repo itself), runs the named
# checks against it (RTFMON_REPO), prints their verdict lines and removes the worktree.
set -u
what="$1"; shift
wt=$(mktemp -d /tmp/rtfwt.XXXXXX)
case "$what" in
  rev:*) git -C /repo worktree add -q --detach "$wt" "${what#rev:}" || exit 2 ;;
  *) git -C /repo worktree add -q --detach "$wt" "${BASE:-HEAD}" || exit 2
     git -C "$wt" apply "$what" 2>/dev/null || git -C "$wt" apply --3way "$what" || { echo "patch does not apply"; git -C /repo worktree remove --force "$wt"; exit 2; } ;;
esac
cd "$(dirname "$0")/.." || exit 2
rc=0
for id in "$@"; do
  RTFMON_REPO="$wt" ./check "$id" --tier "${TIER:-quick}" > "$wt.out" 2>&1; r=$?
  echo "== $id exit=$r"; grep -E "^(VIOLATION|INCONCLUSIVE|KNOWN-FINDING)|^  \[|held on" "$wt.out" | cut -c1-260 | head -${LINES_MAX:-6}
  [ $r -ne 0 ] && rc=$r
done
rm -f "$wt.out"
git -C /repo worktree remove --force "$wt"
rm -rf "/verif/.work/scratch-$(basename "$wt")"
exit $rc
