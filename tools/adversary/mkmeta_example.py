import json, os
CAUGHT = {n: ([n.split("-")[0]], None) for n in ["C01-h","C02-h","C06-h","C10-h","C12-h","C16-h","C17-h","C19-h"]}
CAUGHT["C08-h"] = (["C08 (as it stood, because shards now run under different string-hash seeds)"], None)
CAUGHT["C03-h"] = (["C03 (after every second shard first makes a series of FAILING calls - width measurements at unusable sizes, documents that raise while encoding - before its workload)"],
                   "C03 quick: no failing call ever preceded the measured documents in a shard process")
CAUGHT["C04-h"] = (["C03 (overfull page; C04 delegates the capacity clause to C03) - under the per-shard string-hash seeds"],
                   "C04 quick held: the change under-reserves heading rows, which makes pages overfull (C03's clause) rather than moving a break C04 judges; before shards ran under different hash seeds nothing saw it")
CAUGHT["C05-h"] = (["C05 (after multi-section documents whose sections have differently named page_by columns are walked too)"],
                   "C05 quick: single tables only")
CAUGHT["C07-h"] = (["C14 (after a multi-section document that fails in its second section shares its page component with later documents)"],
                   "C07 judges single encodes; the state a failed encode leaves in a shared RTFPage is a history effect - C14's pool had no failing multi-section document")
CAUGHT["C09-h"] = (["C12 (multi-section documents with different palettes per section)"],
                   "C09 quick: single tables only; colour resolution in multi-section documents is C12's clause and C12 caught it as it stood")
CAUGHT["C13-h"] = (["C13 (after the rule is also checked section by section in multi-section documents)"],
                   "C13 quick: single tables only")
CAUGHT["C14-h"] = (["C14 (after near twins with graded texts at 9pt / 9.2pt / 8.7pt)"],
                   "C14 quick: no two pool documents measured the same font at sizes a half-point key confuses")
CAUGHT["C15-h"] = (["C15 (after a document that fails inside the colour lookup - palette made invalid after construction - joins the double-preemption grid)"],
                   "C15 quick: the only failing pool document failed before any colour was resolved")
CAUGHT["C18-h"] = (["C18 (after a document whose texts hold lone surrogates is exported)"],
                   "C18 quick: all pool texts were encodable as UTF-8")
CAUGHT["C20-h"] = (["C20 (after the same call is repeated from several threads and must return the same value)"],
                   "C20 quick: all calls came from one thread")
for name, (caught, missed) in CAUGHT.items():
    d = f"/verif/seeded/{name}"
    n = json.load(open(d + "/notes.json"))
    meta = {
        "seed": name, "property": n["property"], "summary": n["summary"],
        "needs_to_manifest": n.get("needs") or n.get("needs_to_manifest"),
        "why_existing_tests_pass": n.get("why_tests_pass") or n.get("why_existing_tests_pass"),
        "origin": "written by an independent sub-agent that saw only the property text and a scratch worktree of /repo; round 8: "
                  + str(n.get("angle", "outside factor / secondary code path / number formatting / error handling")),
        "confirmed": "tools/seedcheck.sh: fresh worktree of /repo HEAD; demo.py exits 0 before the patch, unedited test suite 423 passed with the patch, demo.py exits non-zero with the patch",
        "ran": f"tools/seedcheck.sh {name} <dir> <checks> (quick tier, seed 0)",
        "caught_by": caught,
    }
    if missed:
        meta["missed_at_first"] = missed
    json.dump(meta, open(d + "/meta.json", "w"), indent=1, ensure_ascii=True)
    assert meta["needs_to_manifest"] and meta["why_existing_tests_pass"], name
print(len(CAUGHT))
