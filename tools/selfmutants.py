#!/usr/bin/env python3
"""Hand-made one-line breaks of each property ("must catch" items of DESIGN.md section 5).

Each mutant is applied to a scratch worktree of /repo (never to /repo itself), the repository's
own test suite is run there (to know whether the break survives it) and the named checks are
run against the worktree with RTFMON_REPO.  Usage: tools/selfmutants.py [name-substring ...]
"""
import json
import os
import subprocess
import sys
import tempfile

M = []


def mutant(name, file, old, new, checks, count=1):
    M.append(dict(name=name, file=file, old=old, new=new, checks=checks, count=count))


mutant("C02-null-as-None", "src/rtflite/attributes.py",
       'cell_value = "" if raw_value is None else str(raw_value)', 'cell_value = str(raw_value)', ["C02"])
mutant("C02-strip-blanks", "src/rtflite/attributes.py",
       'cell_value = "" if raw_value is None else str(raw_value)',
       'cell_value = "" if raw_value is None else str(raw_value).strip()', ["C02"])
mutant("C02-slice-off-by-one", "src/rtflite/pagination/strategies/grouping.py",
       "page_df = context.df.slice(start_row, end_row - start_row + 1)",
       "page_df = context.df.slice(start_row, max(1, end_row - start_row))", ["C02", "C05"], count=1)
mutant("C03-fit-test-off-by-one", "src/rtflite/pagination/core.py",
       "force_break or (current_rows + row_height > available_rows)",
       "force_break or (current_rows + row_height > available_rows + 1)", ["C03", "C04"])
mutant("C03-footnote-not-reserved", "src/rtflite/services/document_service.py",
       "if document.rtf_footnote and document.rtf_footnote.text:\n            additional_rows += 1",
       "if document.rtf_footnote and document.rtf_footnote.text:\n            additional_rows += 0", ["C03"])
mutant("C04-empty-page-guard", "src/rtflite/pagination/core.py",
       ") and current_rows > 0:", ") and current_rows >= 0:", ["C04", "C02"])
mutant("C04-early-break", "src/rtflite/pagination/core.py",
       "force_break or (current_rows + row_height > available_rows)",
       "force_break or (current_rows + row_height >= available_rows)", ["C04"])
mutant("C04-forced-break-skipped", "src/rtflite/pagination/core.py",
       'if row["is_subline_start"] and i > 0:', 'if row["is_subline_start"] and i > 1:', ["C04", "C05"])
mutant("C05-heading-from-wrong-row", "src/rtflite/pagination/strategies/grouping.py",
       "val = df[col][start_row]\n            if str(val)", "val = df[col][max(0, start_row - 1)]\n            if str(val)",
       ["C05"])
mutant("C06-should-show-swapped", "src/rtflite/encoding/renderer.py",
       'if location == "first":\n            return page.is_first_page',
       'if location == "first":\n            return page.is_last_page', ["C06"])
mutant("C06-needs-header-ignores-flag", "src/rtflite/pagination/strategies/defaults.py",
       "context.rtf_body.pageby_header or display_page_num == 1", "True", ["C06"])
mutant("C07-border-last-wrong-row", "src/rtflite/pagination/processor.py",
       "page_attrs,\n                            page_df_height - 1,\n                            col_idx,\n                            \"bottom\",\n                            border_style,",
       "page_attrs,\n                            max(0, page_df_height - 2),\n                            col_idx,\n                            \"bottom\",\n                            border_style,",
       ["C07"])
mutant("C08-cumulative-sum", "src/rtflite/row.py",
       "cumulative_sum := cumulative_sum + (width * col_width / total_width)",
       "cumulative_sum := cumulative_sum + (width * col_width / (total_width + 0.01))", ["C08"])
mutant("C08-spanning-row-page-width", "src/rtflite/encoding/renderer.py",
       "page_width=document.rtf_page.col_width or 8.5,\n                    rtf_body_attrs=document.rtf_body,\n                    col_idx=current_col_idx,\n                )\n                page_elements.extend(spanning_row)",
       "page_width=document.rtf_page.width or 8.5,\n                    rtf_body_attrs=document.rtf_body,\n                    col_idx=current_col_idx,\n                )\n                page_elements.extend(spanning_row)",
       ["C08"])
mutant("C09-row-offset-dropped", "src/rtflite/attributes.py",
       "row_idx + row_offset, col_idx\n            )", "row_idx, col_idx\n            )", ["C09"])
mutant("C10-fallback-dropped", "src/rtflite/row.py",
       'converted_text += f"\\\\uc1\\\\u{rtf_value}*"', 'converted_text += f"\\\\uc1\\\\u{rtf_value}"', ["C10", "C01"])
mutant("C10-threshold", "src/rtflite/row.py", "if unicode_int < 128:", "if unicode_int < 256:", ["C10"])
mutant("C11-greedy-brace", "src/rtflite/text_conversion/converter.py",
       'pattern = r"\\\\[a-zA-Z]+(?:\\{[^}]*\\})?"', 'pattern = r"\\\\[a-zA-Z]+(?:\\{.*\\})?"', ["C11"])
mutant("C11-subline-ignores-convert", "src/rtflite/row.py",
       "if self.convert:\n            rtf_chars", "if True:\n            rtf_chars", ["C11"])
mutant("C12-dense-index-off-by-one", "src/rtflite/services/color_service.py",
       "return sorted_colors.index(color) + 1", "return sorted_colors.index(color) + (2 if len(sorted_colors) > 6 else 1)",
       ["C12"])
mutant("C13-page-restore-off-by-one", "src/rtflite/encoding/unified_encoder.py",
       "page_start_indices.append(cumulative)", "page_start_indices.append(cumulative + 1)", ["C13"])
mutant("C13-contiguity-skipped", "src/rtflite/services/grouping_service.py",
       "        self.validate_data_sorting(df, group_by=group_by)\n", "        pass\n", ["C13", "C01"])
mutant("C14-context-not-cleared", "src/rtflite/encoding/unified_encoder.py",
       "        finally:\n            color_service.clear_document_context()", "        finally:\n            pass",
       ["C14"])
mutant("C15-global-colour-state", "src/rtflite/services/color_service.py",
       "    @property\n    def _current_document_colors(self) -> Sequence[str] | None:\n        return _document_colors.get()\n\n    @_current_document_colors.setter\n    def _current_document_colors(self, value: Sequence[str] | None) -> None:\n        _document_colors.set(value)\n",
       "    _current_document_colors = None\n", ["C15", "C14"])
# (equivalent: CR/LF inside hex data is ignored by RTF readers - expected "missed")
mutant("C16-hex-wrap-odd", "src/rtflite/services/figure_service.py", "line_length = 80", "line_length = 79", ["C16"])
mutant("C16-width-height-swapped", "src/rtflite/services/figure_service.py",
       "height = struct.unpack(\">H\", data[i + 5 : i + 7])[0]\n                    width = struct.unpack(\">H\", data[i + 7 : i + 9])[0]",
       "width = struct.unpack(\">H\", data[i + 5 : i + 7])[0]\n                    height = struct.unpack(\">H\", data[i + 7 : i + 9])[0]",
       ["C16"])
mutant("C16-dimension-index", "src/rtflite/services/figure_service.py",
       "return dimension[index] if index < len(dimension) else dimension[-1]",
       "return dimension[index] if index < len(dimension) else dimension[0]", ["C16"])
mutant("C17-skip-plus-one", "src/rtflite/assemble.py", "return last_idx + 2", "return last_idx + 1", ["C17"])
mutant("C18-mkdtemp-leak", "src/rtflite/encode.py",
       "            with tempfile.TemporaryDirectory() as convert_tmpdir:\n                converted = converter.convert(\n                    input_files=rtf_path,\n                    output_dir=Path(convert_tmpdir),\n                    format=\"docx\",",
       "            if True:\n                convert_tmpdir = tempfile.mkdtemp()\n                converted = converter.convert(\n                    input_files=rtf_path,\n                    output_dir=Path(convert_tmpdir),\n                    format=\"docx\",",
       ["C18"])
mutant("C19-validator-first-row-only", "src/rtflite/attributes.py",
       "        for row in v:\n            for border in row:\n                if border not in BORDER_CODES:",
       "        for row in v[:1]:\n            for border in row:\n                if border not in BORDER_CODES:", ["C19"])
# validation moved into assert statements: only visible when Python runs with -O (every fifth shard does)
mutant("C19-validator-as-assert", "src/rtflite/attributes.py",
       "                if border not in BORDER_CODES:\n                    field_name = info.field_name.capitalize()\n                    raise ValueError(\n                        f\"{field_name} with invalid border style: {border}\"\n                    )",
       "                assert border in BORDER_CODES, f\"invalid border style: {border}\"", ["C19"])
mutant("C13-contiguity-as-assert", "src/rtflite/services/grouping_service.py",
       "                        if values[j] in seen_values:\n",
       "                        assert values[j] not in seen_values, f\"not contiguous: {var}\"\n                        if False:\n", ["C13"])
mutant("C20-mm-factor", "src/rtflite/strwidth.py", "(x / dpi) * 25.4", "(x / dpi) * 25.0", ["C20"])
mutant("C20-dpi-ignored", "src/rtflite/strwidth.py", '"in": lambda x: x / dpi,', '"in": lambda x: x / 72.0,', ["C20"])
mutant("C01-brace-dropped", "src/rtflite/row.py",
       'f"{formatted_text}}}\\\\par}}"', 'f"{formatted_text}\\\\par}}"', ["C01"])


mutant("C14-hash-order-colortbl", "src/rtflite/services/color_service.py",
       "sorted_colors = sorted(validated_colors, key=lambda x: self._name_to_type[x])",
       "sorted_colors = list(dict.fromkeys(set(validated_colors)))", ["C14"])

def run(cmd, **kw):
    return subprocess.run(cmd, shell=True, stdout=subprocess.PIPE, stderr=subprocess.STDOUT, text=True, **kw)


def main():
    sel = sys.argv[1:]
    results = []
    for m in M:
        if sel and not any(s in m["name"] for s in sel):
            continue
        wt = tempfile.mkdtemp(prefix="rtfself.")
        run(f"git -C /repo worktree add -q --detach {wt} HEAD")
        try:
            path = os.path.join(wt, m["file"])
            src = open(path).read()
            if src.count(m["old"]) < 1:
                print(f"{m['name']}: PATTERN NOT FOUND")
                results.append({"name": m["name"], "error": "pattern not found"})
                continue
            open(path, "w").write(src.replace(m["old"], m["new"], m["count"]))
            t = run(f"cd {wt} && PYTHONPATH={wt}/src /venv/bin/python -m pytest -q -p no:cacheprovider -x 2>&1 | tail -1")
            tests = t.stdout.strip()
            caught = {}
            for c in m["checks"]:
                r = run(f"cd /verif && RTFMON_REPO={wt} ./check {c} --tier quick")
                caught[c] = r.returncode
            print(f"{m['name']}: tests[{tests}] " + " ".join(f"{c}={'CAUGHT' if v == 1 else 'missed' if v == 0 else 'rc' + str(v)}"
                                                              for c, v in caught.items()), flush=True)
            results.append({"name": m["name"], "tests": tests, "checks": caught})
        finally:
            run(f"git -C /repo worktree remove --force {wt}")
            run(f"rm -rf /verif/.work/scratch-{os.path.basename(wt)}")
    os.makedirs("/verif/.work", exist_ok=True)
    json.dump(results, open("/verif/.work/selfmutants.json", "w"), indent=1)


if __name__ == "__main__":
    main()
