"""C04 - page breaks occur only when required, and always when required.

Observed: page membership of every tagged data row in the parsed output and
the rows actually rendered on each page.  Oracle: pages are non-empty contiguous
runs in order; forced breaks (subline_by change, page_by change with new_page)
are present and no page mixes two such groups; every other break is necessary
(rendered rows + still-to-reserve repeating components + cost of the next row
exceed nrow); appending rows never re-paginates earlier rows.  Hook: the page
column produced by _assign_pages equals a reference greedy over the same inputs.
"""
from __future__ import annotations

import itertools
import random

from .. import expect as E
from .. import gen as G
from .. import harness as H
from .. import reader as R
from ..spec import strip_meta
from .c03 import pil_width_in
from .c05 import compositions

PID = "C04"
LEVEL = "exploration"
# a few fixed documents are encoded before and after every shard's workload (harness.Sentinels)
SENTINELS = True
RULE = ("tables whose rows have an unambiguous height (the sizing cell's measured width lies in [(k-1)+0.2, k-0.2] "
        "column widths, k in 1..3; all other cells one short line), font 1 / 9pt; exhaustive part: every height vector "
        "in {1,2,3}^n (n<=5 quick, n<=7 thorough) x nrow 2..12 x 4 reservation sets under plain pagination, and every "
        "group-change pattern of length <=6 (thorough <=7) for 1-2 levels x nrow {2,3,4,6} under page_by (new_page "
        "off/on) and subline_by; random part: 1-3 levels, nrow 2..30, all header/footnote/source reservations, prefix "
        "re-pagination. non-trivial = >=2 pages; distinct by spec hash")
ASSUMPTIONS = ["'after reserving the repeating components' is read generously: a break is necessary if rendered rows + "
               "one row for every configured repeating component not already rendered on that page + the next row's "
               "cost exceed nrow; a break failing even this is premature by at least one row",
               "'always when required' for capacity is C03's bound"]
DECIDING = ["docs_parsed", "breaks_judged", "forced_breaks_checked", "prefix_pairs_compared", "assign_pages_hook_calls"]
FLOOR = {"quick": 4000, "thorough": 60000}
EXHAUSTIVE_NOTE = {"quick": "all height vectors {1,2,3}^n n<=5 x nrow 2..12 x 4 reservation sets; all group-change patterns n<=6",
                   "thorough": "all height vectors {1,2,3}^n n<=7 x nrow 2..12 x 4 reservation sets; all group-change patterns n<=7"}

RESERVATIONS = [{"hdr": "none"}, {"hdr": "explicit"}, {"hdr": "explicit", "footnote": True},
                {"hdr": "none", "footnote": False, "source": True}]
COLW = 3.125          # two columns of a 6.25 in table
_TEXT = {}


def exhaustive(tier):
    return False


def text_of_height(k, colw=COLW):
    key = (k, colw)
    if key not in _TEXT:
        if k == 1:
            _TEXT[key] = "one line"
        else:
            target_lo, target_hi = (k - 1 + 0.2) * colw, (k - 0.2) * colw
            t = "w"
            while pil_width_in(t, 1, 9) < (target_lo + target_hi) / 2:
                t += " word"
            assert target_lo <= pil_width_in(t, 1, 9) <= target_hi, (k, pil_width_in(t, 1, 9))
            _TEXT[key] = t
    return _TEXT[key]


def plan(tier, seed):
    k = 12
    descs = [{"kind": "heights", "lo": i, "step": k} for i in range(k)]
    descs += [{"kind": "groups", "lo": i, "step": 10} for i in range(10)]
    per = 125 if tier == "quick" else 2000
    descs += [{"kind": "random", "n": per} for _ in range(4)]
    return descs


def classify(v):
    return (v.get("detail") or {}).get("mech")


def make_spec(heights, nrow, reservation, groups=None, body_extra=None, hdr_rows=1):
    """groups: list of per-level label lists (outer first) or None; the last column sizes the row"""
    n = len(heights)
    cols = []
    body = {}
    if groups:
        for lvl, vals in enumerate(groups["page_by"]):
            cols.append({"name": f"N{len(cols)}", "dtype": "str", "values": list(vals)})
        body["page_by"] = [c["name"] for c in cols]
        if groups.get("subline_by"):
            for vals in groups["subline_by"]:
                cols.append({"name": f"N{len(cols)}", "dtype": "str", "values": list(vals)})
            body["subline_by"] = [c["name"] for c in cols[len(body["page_by"]):]]
        if not body["page_by"]:
            del body["page_by"]
    kj = len(cols)
    cols.append({"name": f"N{kj}", "dtype": "str", "values": [f"d{r}c{kj}" for r in range(n)]})
    cols.append({"name": f"N{kj + 1}", "dtype": "str", "values": [text_of_height(h) for h in heights]})
    body.update(body_extra or {})
    spec = {"kind": "table", "df": {"cols": cols}, "body": body, "title": None, "page": {"nrow": nrow},
            "_heights": list(heights)}
    hdr = reservation.get("hdr", "none")
    ndisp = len(E.displayed_columns(spec["df"], body))
    if hdr == "explicit":
        spec["colheader"] = [{"text": [f"H{k}c{j}" for j in range(ndisp)]} for k in range(hdr_rows)]
    else:
        spec["colheader"] = hdr
    if "footnote" in reservation:
        spec["footnote"] = {"text": "FN0", "as_table": bool(reservation["footnote"])}
    if "source" in reservation:
        spec["source"] = {"text": "SR0", "as_table": bool(reservation["source"])}
    # the sizing column must be half of the table for the pre-computed texts
    spec["body"]["col_rel_width"] = [1] * len(cols)
    if ndisp != 2:
        # keep the sizing column at COLW: give the displayed columns widths that sum accordingly
        names = [c["name"] for c in cols]
        disp = E.displayed_columns(spec["df"], body)
        w = [1.0] * len(cols)
        others = [j for j in disp if j != len(cols) - 1]
        for j in others:
            w[j] = 1.0 / len(others)
        spec["body"]["col_rel_width"] = w
    return spec


class AssignHook:
    def __init__(self):
        self.calls = 0
        self.bad = []

    def install(self):
        from rtflite.pagination.core import PageBreakCalculator
        self.cls = PageBreakCalculator
        self.orig = PageBreakCalculator._assign_pages
        hook = self

        def wrapped(self_c, meta_df, additional_rows_per_page=0, new_page=False):
            res = hook.orig(self_c, meta_df, additional_rows_per_page, new_page)
            hook.calls += 1
            try:
                rows = meta_df.to_dicts()
                avail = max(1, self_c.pagination.nrow - additional_rows_per_page)
                page, cur, ref = 1, 0, []
                for i, row in enumerate(rows):
                    h = row["total_rows"]
                    force = (row["is_subline_start"] and i > 0) or (new_page and row["is_group_start"] and i > 0)
                    if (force or cur + h > avail) and cur > 0:
                        page += 1
                        cur = 0
                    if cur == 0 and "page_top_header_rows" in row:
                        h = row["data_rows"] + row["page_top_header_rows"]
                    cur += h
                    ref.append(page)
                got = res["page"].to_list() if res.height else []
                if got != ref and len(hook.bad) < 3:
                    hook.bad.append({"got": got[:40], "reference": ref[:40], "available_rows": avail,
                                     "heights": [r["total_rows"] for r in rows][:40]})
            except Exception as e:  # noqa
                hook.bad.append({"hook_error": repr(e)})
            return res
        PageBreakCalculator._assign_pages = wrapped
        return self

    def uninstall(self):
        self.cls._assign_pages = self.orig


def pages_of(doc, extra=None):
    """-> (page_of_row dict, per-page info list) or None when a block is unclassifiable"""
    page_of = {}
    info = []
    for p, pg in enumerate(doc.pages):
        roles = E.page_roles(pg, extra)
        if any(r is None for r, _ in roles):
            return None, None
        rows = [E.data_key(b)[0] for r, b in roles if r == "data"]
        for r in rows:
            page_of[r] = p
        info.append({"rows": rows, "hdr": sum(1 for r, _ in roles if r in ("header", "header_auto")),
                     "heading": sum(1 for r, _ in roles if r == "heading"),
                     "subl": sum(1 for r, _ in roles if r == "subline_by"),
                     "fn": sum(1 for r, _ in roles if r == "footnote_row"),
                     "sr": sum(1 for r, _ in roles if r == "source_row")})
    return page_of, info


def check_spec(ctx, spec, hook, rng=None, prefix=False):
    case = strip_meta(spec)
    case["_heights"] = spec["_heights"]
    o = H.build_and_encode(spec)
    if o.stage == "build":
        ctx.count("rejected_at_construction")
        ctx.notes.append(repr(o.exc)[:150])
        return
    if o.stage == "encode":
        ctx.case(case, True)
        info = H.exc_info(o.exc)
        ctx.violation(f"rtf_encode raised {info['exc']} @ {info['where']}", case, info)
        return
    doc = R.parse(o.out)
    ctx.count("docs_parsed")
    names0 = [c["name"] for c in spec["df"]["cols"]]
    extra = {"heading": set(), "subline_by": set()}
    for c in spec["body"].get("page_by") or []:
        extra["heading"] |= {E.display(v) for v in spec["df"]["cols"][names0.index(c)]["values"]}
    sbc = spec["body"].get("subline_by") or []
    if sbc:
        nn = len(spec["df"]["cols"][0]["values"])
        extra["subline_by"] = {", ".join(str(spec["df"]["cols"][names0.index(c)]["values"][r]) for c in sbc)
                               for r in range(nn)}
    page_of, pinfo = pages_of(doc, extra)
    if page_of is None:
        ctx.violation("unclassifiable block", case, None)
        return
    heights = spec["_heights"]
    n = len(heights)
    body = spec["body"]
    nrow = spec["page"]["nrow"]
    npages = len(doc.pages)
    ctx.case(case, npages >= 2)
    ctx.sample({"heights": heights[:12], "nrow": nrow, "pages": [p["rows"] for p in pinfo][:5],
                "strategy": {k: body.get(k) for k in ("page_by", "subline_by", "new_page", "pageby_row")}}, limit=3)
    # (1) contiguous, ordered, non-empty
    seq = [r for p in pinfo for r in p["rows"]]
    if seq != list(range(n)):
        ctx.violation("rows lost / reordered / duplicated across pages", case, {"seq": seq})
        return
    if n and any(not p["rows"] for p in pinfo):
        ctx.violation(f"an empty page: rows per page {[len(p['rows']) for p in pinfo]}", case, None)
        return
    names = [c["name"] for c in spec["df"]["cols"]]

    def key(cols_, r):
        return tuple(spec["df"]["cols"][names.index(c)]["values"][r] for c in cols_)
    pb = body.get("page_by") or []
    sb = body.get("subline_by") or []
    spanning = E.spanning_mode(body)
    hdr = spec.get("colheader", "none")
    cfg_hdr_rows = len(hdr) if isinstance(hdr, list) else (1 if hdr == "default" else 0)
    has_fn = isinstance(spec.get("footnote"), dict)
    has_sr = isinstance(spec.get("source"), dict)
    for i in range(n - 1):
        forced = (sb and key(sb, i) != key(sb, i + 1)) or (pb and body.get("new_page") and key(pb, i) != key(pb, i + 1))
        brk = page_of[i] != page_of[i + 1]
        if forced:
            ctx.count("forced_breaks_checked")
            if not brk:
                ctx.violation(f"rows {i} and {i + 1} belong to different "
                              f"{'subline_by' if sb and key(sb, i) != key(sb, i + 1) else 'page_by(new_page)'} groups "
                              f"but share page {page_of[i] + 1}", case, {"row": i})
                return
            continue
        if not brk:
            continue
        # (3) necessity
        ctx.count("breaks_judged")
        P = pinfo[page_of[i]]
        rendered = P["hdr"] + P["heading"] + P["subl"] + P["fn"] + P["sr"] + sum(heights[r] for r in P["rows"])
        reserve = max(0, cfg_hdr_rows - P["hdr"])
        reserve += 1 if (has_fn and not P["fn"]) else 0
        reserve += 1 if (has_sr and not P["sr"]) else 0
        reserve += 1 if (sb and not P["subl"]) else 0
        cost = heights[i + 1]
        if spanning:
            a, b = key(pb, i), key(pb, i + 1)
            first = next((lv for lv in range(len(pb)) if a[lv] != b[lv]), len(pb))
            cost += sum(1 for lv in range(first, len(pb)) if b[lv] != E.DIVIDER)
        if rendered + reserve + cost <= nrow:
            ctx.violation(f"premature break after row {i}: page {page_of[i] + 1} renders {rendered} rows, "
                          f"{reserve} more to reserve, next row costs {cost}, nrow={nrow} "
                          f"(slack {nrow - rendered - reserve - cost})", case,
                          {"row": i, "rendered": rendered, "reserve": reserve, "cost": cost, "nrow": nrow,
                           "page": P, "rows_per_page": [len(p["rows"]) for p in pinfo]})
            return
    # (4) appending rows never re-paginates earlier rows
    if prefix and rng is not None and n >= 2:
        m = rng.randint(1, n - 1)
        pre = dict(spec)
        pre["df"] = {"cols": [dict(c, values=c["values"][:m]) for c in spec["df"]["cols"]]}
        o2 = H.build_and_encode(pre)
        if o2.stage is None:
            po2, _ = pages_of(R.parse(o2.out), extra)
            if po2 is not None:
                ctx.count("prefix_pairs_compared")
                diff = [r for r in range(m) if po2.get(r) != page_of.get(r)]
                if diff:
                    ctx.violation(f"appending rows re-paginated row {diff[0]}: page {po2.get(diff[0])} with {m} rows, "
                                  f"page {page_of.get(diff[0])} with {n} rows", case, {"m": m, "rows": diff[:10]})
    if hook.bad:
        ctx.violation("_assign_pages disagrees with the reference greedy: " + str(hook.bad[0])[:300], case,
                      {"hook": hook.bad[:2]})
        hook.bad.clear()


def height_cases(tier):
    nmax = 5 if tier == "quick" else 7
    out = []
    for n in range(1, nmax + 1):
        for hv in itertools.product((1, 2, 3), repeat=n):
            out.append(hv)
    return out


def group_cases(tier):
    nmax = 6 if tier == "quick" else 7
    out = []
    for n in range(2, nmax + 1):
        for runs in compositions(n):
            out.append((n, [runs]))
    for n in range(2, min(nmax, 6) + 1):
        for outer in compositions(n):
            for combo in itertools.product(*[list(compositions(k)) for k in outer]):
                out.append((n, [outer, [x for c in combo for x in c]]))
    return out


def labels(runs_by_level, prefix="G", recur=0):
    """recur=m>0: run k is labelled k mod m, so a value comes back after other values (A,B,A,...)"""
    cols = []
    for lvl, runs in enumerate(runs_by_level):
        vals = []
        for k, ln in enumerate(runs):
            kk = k % recur if recur else k
            vals += [f"{prefix}{lvl}{'v' if prefix == 'G' else 'x'}{kk}"] * ln
        cols.append(vals)
    return cols


def run_shard(desc, ctx):
    rng = random.Random(desc["seed"])
    hook = AssignHook().install()
    try:
        if desc["kind"] == "heights":
            cases = height_cases(desc["tier"])[desc["lo"]::desc["step"]]
            for hv in cases:
                for nrow in range(2, 13):
                    for res in RESERVATIONS:
                        ctx.count("enumerated_height_cases")
                        check_spec(ctx, make_spec(hv, nrow, res), hook)
        elif desc["kind"] == "groups":
            for n, runs in group_cases(desc["tier"])[desc["lo"]::desc["step"]]:
                for nrow in (2, 3, 4, 6):
                    for mode in ("page_by", "page_by_new", "page_by_new_first", "subline"):
                        if mode == "subline" and len(runs) > 1:
                            continue
                        ctx.count("enumerated_group_cases")
                        # group values may come back after other values (the quantifier says ALL key sequences)
                        recur = 0 if len(runs) > 1 else (nrow % 3 if nrow % 3 != 1 else 0)
                        if recur:
                            ctx.count("enumerated_recurring_label_cases")
                        if mode == "subline":
                            g = {"page_by": [], "subline_by": labels(runs, "SB", recur)}
                            extra = {}
                        else:
                            g = {"page_by": labels(runs, "G", recur)}
                            extra = {} if mode == "page_by" else {"new_page": True}
                            if mode == "page_by_new_first":
                                extra["pageby_row"] = "first_row"
                        check_spec(ctx, make_spec([1] * n, nrow, rng.choice(RESERVATIONS[:2]), g, extra), hook)
        else:
            for _ in range(desc["n"]):
                n = rng.randint(2, 45)
                if rng.random() < 0.08:
                    # tables of everyday length: a few hundred rows (fast paths for "long" tables start somewhere)
                    n = rng.choice([rng.randint(90, 140), rng.randint(120, 300)])
                    ctx.count("tables_longer_than_90_rows")
                heights = [rng.choice([1, 1, 1, 2, 3]) for _ in range(n)]
                nrow = rng.randint(2, 30)
                res = dict(rng.choice(RESERVATIONS))
                if rng.random() < 0.3:
                    res["hdr"] = "default"
                if rng.random() < 0.3:
                    res["footnote"] = rng.random() < 0.5
                mode = rng.choice(["plain", "plain", "page_by", "page_by_new", "page_by_new_first", "subline",
                                   "subline_page_by", "collide"])
                g, extra = None, {}
                if mode == "collide":
                    # multi-level keys whose stringified values run together ambiguously: (1,11) vs (11,1),
                    # ('A','BC') vs ('AB','C') - a joined comparison key without separator confuses them
                    # ... or differ only by blanks or letter case: still different groups
                    fam = rng.choice([["1", "11", "111"], ["A", "AB", "B", "BC", "C"], ["x", "xx"],
                                      ["ARM A", "ARM A ", " ARM A", "ARM  A"], ["a", "A", "a ", "b"],
                                      # long labels that agree in their first 40 / 64 / 100 characters
                                      ["Population: All Participants as Treated; Treatment: Drug X " + t
                                       for t in ("10 mg", "20 mg", "10 mg bid")],
                                      ["L" * 64 + t for t in ("a", "b", "")],
                                      # a level without a value: (None, A) and (None, B) are still two groups
                                      [None, "A", "B"], [None, None, "x", "y"]])
                    runs = G.split_runs(rng, n, 6)
                    keys, prev = [], None
                    for ln in runs:
                        k2 = (rng.choice(fam), rng.choice(fam))
                        while k2 == prev:
                            k2 = (rng.choice(fam), rng.choice(fam))
                        prev = k2
                        keys += [k2] * ln
                    cols2 = [[k[0] for k in keys], [k[1] for k in keys]]
                    long_labels = max(len(x or "") for x in fam) > 20
                    if rng.random() < 0.5 and None not in fam:
                        g = {"page_by": [], "subline_by": cols2}
                    else:
                        g = {"page_by": cols2}
                        extra["new_page"] = True
                        # (long labels only where the group columns are not table cells: they would wrap there
                        # and the rows would no longer have the heights this check controls)
                        if long_labels or rng.random() < 0.5:
                            extra["pageby_row"] = "first_row"
                    mode = "plain_done"
                if mode not in ("plain", "plain_done"):
                    lv = rng.choice([1, 2, 3]) if mode.startswith("page_by") else 1
                    keys = G.gen_group_keys(rng, n, lv + (1 if mode == "subline_page_by" else 0),
                                            maxruns=rng.choice([2, 3, 5]), reuse_inner=False)
                    colsv = [[k[l] for k in keys] for l in range(len(keys[0]))]

                    recur = rng.choice([0, 0, 2, 3])
                    blank_at = rng.choice([None, None, None, 0, 1])     # one group value may be blank

                    def ren(vals, pre, lvl):
                        m = {}
                        out = []
                        for v in vals:
                            if v not in m:
                                m[v] = len(m) % recur if recur else len(m)
                            if pre == "G" and lvl == 0 and blank_at is not None and m[v] == blank_at:
                                out.append("")
                            else:
                                out.append(f"{pre}{lvl}{'v' if pre == 'G' else 'x'}{m[v]}")
                        return out
                    if mode == "subline":
                        g = {"page_by": [], "subline_by": [ren(colsv[0], "SB", 0)]}
                    elif mode == "subline_page_by":
                        g = {"page_by": [ren(colsv[1], "G", 0)], "subline_by": [ren(colsv[0], "SB", 0)]}
                        if rng.random() < 0.4:
                            # the page_by value does not change where the subline_by value does (one value for the
                            # whole table, or runs of its own)
                            runs2 = G.split_runs(rng, n, rng.choice([1, 1, 2, 3]))
                            g["page_by"] = [[f"G0v{k}" for k, ln in enumerate(runs2) for _ in range(ln)]]
                    else:
                        g = {"page_by": [ren(c, "G", l) for l, c in enumerate(colsv)]}
                        if mode != "page_by":
                            extra["new_page"] = True
                        if mode == "page_by_new_first":
                            extra["pageby_row"] = "first_row"
                if rng.random() < 0.3:
                    extra["pageby_header"] = rng.random() < 0.5
                check_spec(ctx, make_spec(heights, nrow, res, g, extra, hdr_rows=rng.choice([1, 1, 2])), hook,
                           rng=rng, prefix=True)
    finally:
        ctx.count("assign_pages_hook_calls", hook.calls)
        hook.uninstall()


def replay(data, ctx):
    hook = AssignHook().install()
    spec = data["case"]
    check_spec(ctx, spec, hook, rng=random.Random(0), prefix=True)
    hook.uninstall()
