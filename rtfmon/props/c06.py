"""C06 - titles, headers, footnotes and sources appear on exactly the configured pages."""
from __future__ import annotations

import itertools
import json
import random

from .. import expect as E
from .. import gen as G
from .. import harness as H
from .. import reader as R
from ..spec import strip_meta

PID = "C06"
LEVEL = "exploration"
RULE = ("the product page_title x page_footnote x page_source x footnote{table,paragraph,absent} x "
        "source{table,paragraph,absent} x pageby_header x {plain, page_by, subline_by} x header mode{default, "
        "explicit, two-row, none}, each at row counts giving 1, 2-3 and many pages (thorough: complete product; "
        "quick: every 9th element + random), random paper sizes / margins / orientation (incl. A4 8.27x11.69), "
        "figure documents with 1..6 figures; one-page documents are additionally re-encoded under all 27 "
        "placement combinations (metamorphic). non-trivial = >=2 pages; distinct by spec hash")
ASSUMPTIONS = ["geometry tolerance 1 twip against inches x 1440; later pages must restate exactly the document-start values",
               "page header/footer: exactly one \\header / \\footer destination when configured with text, none otherwise"]
DECIDING = ["docs_parsed", "pages_checked", "page_breaks_with_geometry_checked", "one_page_metamorphic_sets",
            "figure_docs"]
FLOOR = {"quick": 1500, "thorough": 20000}
EXHAUSTIVE_NOTE = {"quick": "every 9th element of the 5832-element placement product at 3 sizes",
                   "thorough": "complete 5832-element placement product at 3 sizes"}

PLACES = ["first", "last", "all"]
TBL = ["table", "para", None]
STRATS = ["plain", "page_by", "subline"]
HDRS = ["default", "explicit", "tworow", "none"]
RANK = {"title": 0, "subline": 1, "subline_by": 2, "header": 3, "header_auto": 3, "heading": 4, "data": 4,
        "pict": 4, "footnote_row": 5, "footnote_para": 5, "source_row": 6, "source_para": 6}
PORTRAIT = (8.5, 11, [1.25, 1, 1.75, 1.25, 1.75, 1.00625])
LANDSCAPE = (11, 8.5, [1.0, 1.0, 2, 1.25, 1.25, 1.25])
GEOM = ["paperw", "paperh", "margl", "margr", "margt", "margb", "headery", "footery"]


def exhaustive(tier):
    return False


def product():
    return list(itertools.product(PLACES, PLACES, PLACES, TBL, TBL, [True, False], STRATS, HDRS))


def plan(tier, seed):
    prod = product()
    if tier == "quick":
        prod = prod[seed % 9::9]
    k = 12
    descs = [{"kind": "product", "items": prod[i::k]} for i in range(k)]
    per = 100 if tier == "quick" else 1500
    descs += [{"kind": "random", "n": per} for _ in range(4)]
    return descs


def classify(v):
    return (v.get("detail") or {}).get("mech")


def expected_geometry(page):
    land = page.get("orientation", "portrait") == "landscape"
    w, h, m = LANDSCAPE if land else PORTRAIT
    w = page.get("width", w)
    h = page.get("height", h)
    m = page.get("margin", m)
    vals = [w, h] + list(m)
    return dict(zip(GEOM, vals)), land


def make_spec(rng, pt, pf, ps, fn, sr, pbh, strat, hdr, size):
    nrows = {0: rng.choice([0, 1, 1, 2, 3]), 1: rng.randint(9, 16), 2: rng.randint(30, 45)}[size]
    strategy = {"plain": "plain", "page_by": rng.choice(["page_by", "page_by_new", "page_by_new_first"]),
                "subline": "subline"}[strat]
    spec = G.gen_table_spec(rng, nrows=nrows, ncols=(1, 4), strategy=strategy, header=hdr, nrow=9,
                            attrs_p=0.0, rich=0.0, title=True, subline=rng.random() < 0.6,
                            footnote=fn is not None, source=sr is not None, page_hf=None, page={},
                            col_rel_width=False, maxruns=3)
    spec["page"] = {"nrow": rng.choice([8, 9, 10, 12]), "page_title": pt, "page_footnote": pf, "page_source": ps}
    if fn is not None:
        spec["footnote"]["as_table"] = fn == "table"
    if sr is not None:
        spec["source"]["as_table"] = sr == "table"
    spec["body"]["pageby_header"] = pbh
    if isinstance(spec.get("colheader"), list) and spec["colheader"] and rng.random() < 0.12:
        # a header row whose labels are all blank is still a header row
        for hrow in spec["colheader"]:
            if isinstance(hrow.get("text"), list) and len(hrow["text"]) >= 2:
                hrow["text"] = [rng.choice(["", " "]) for _ in hrow["text"]]
    # page header / footer with several lines and per-line attributes (alignment, font, size ...): still ONE
    # destination each
    if rng.random() < 0.35:
        spec["page_header"] = G.gen_text_comp(rng, "PH", lines=rng.choice([1, 2, 3]), rich=0.7)
    if rng.random() < 0.35:
        spec["page_footer"] = G.gen_text_comp(rng, "PF", lines=rng.choice([1, 2, 3]), rich=0.7)
    if rng.random() < 0.4:
        pk = G.gen_page(rng, paper=True, placements=False, borders=False)
        pk.pop("col_width", None)
        spec["page"].update(pk)
        # keep the table inside the paper
        spec["page"]["col_width"] = round(min(spec["page"].get("width", 8.5) - 1.0, 6.0), 2)
    elif rng.random() < 0.3:
        spec["page"]["orientation"] = rng.choice(["portrait", "landscape"])
    return spec


def check_doc(ctx, spec, out, case):
    doc = R.parse(out)
    ctx.count("docs_parsed")
    if doc.errors:
        ctx.violation("output not well-formed: " + str(doc.errors[:2]), case, None)
        return None
    n = len(doc.pages)
    kind = spec.get("kind", "table")
    page = spec.get("page", {})
    pt, pf, ps = page.get("page_title", "all"), page.get("page_footnote", "last"), page.get("page_source", "last")
    has = {k: isinstance(spec.get(k), dict) for k in ("title", "subline", "footnote", "source")}
    if spec.get("title", "default") == "default":
        has["title"] = False      # default RTFTitle() has no text
    body = spec.get("body", {})
    hdr = spec.get("colheader", "default")
    pbh = body.get("pageby_header", True)
    mech_fig = "figure" if kind == "figure" else None
    ctx.count(f"docs_with_{min(n, 4)}{'+' if n >= 4 else ''}_pages")
    for p, pg in enumerate(doc.pages):
        roles = E.page_roles(pg)
        names = [r for r, _ in roles]
        ctx.count("pages_checked")
        if None in names:
            b = roles[names.index(None)][1]
            ctx.violation(f"unclassifiable block on page {p + 1}: {getattr(b, 'text', None) or getattr(b, 'texts', None)!r}",
                          case, {"page": p})
            continue

        def cnt(*rs):
            return sum(1 for r in names if r in rs)
        want = {
            "title": (cnt("title"), 1 if has["title"] and E.select(pt, p, n) else 0, pt),
            "subline": (cnt("subline"), 1 if has["subline"] and E.select(pt, p, n) else 0, pt),
            "footnote": (cnt("footnote_row", "footnote_para"), 1 if has["footnote"] and E.select(pf, p, n) else 0, pf),
            "source": (cnt("source_row", "source_para"), 1 if has["source"] and E.select(ps, p, n) else 0, ps),
        }
        for comp, (got, exp, place) in want.items():
            if got != exp:
                mech = None
                if kind == "figure" and comp == "subline":
                    mech = "figure_subline_first_page_only"
                ctx.violation(f"{comp} appears {got}x on page {p + 1}/{n} with placement '{place}' (expected {exp})"
                              + (" [figure document]" if kind == "figure" else ""), case,
                              {"comp": comp, "page": p, "pages": n, "place": place, "mech": mech})
        # as_table decides the form
        if has["footnote"] and cnt("footnote_row", "footnote_para"):
            form = "footnote_row" if spec["footnote"].get("as_table", True) and kind != "figure" else "footnote_para"
            if form not in names:
                ctx.violation(f"footnote rendered in the wrong form on page {p + 1} (as_table="
                              f"{spec['footnote'].get('as_table', True)})", case, {"page": p})
        if has["source"] and cnt("source_row", "source_para"):
            form = "source_row" if spec["source"].get("as_table", False) and kind != "figure" else "source_para"
            if form not in names:
                ctx.violation(f"source rendered in the wrong form on page {p + 1}", case, {"page": p})
        # order
        ranks = [RANK[r] for r in names]
        if ranks != sorted(ranks):
            ctx.violation(f"component order on page {p + 1}: {names}", case, {"page": p, "roles": names})
        # column headers
        if kind == "table":
            nh = cnt("header", "header_auto")
            exp_rows = 0
            if hdr == "default":
                exp_rows = 1 if body.get("as_colheader", True) else 0
            elif isinstance(hdr, list):
                exp_rows = len(hdr)
            if not (p == 0 or pbh):
                exp_rows = 0
            if nh != exp_rows:
                ctx.violation(f"{nh} column-header rows on page {p + 1}/{n} (pageby_header={pbh}, expected {exp_rows})",
                              case, {"page": p, "got": nh, "want": exp_rows})
        # geometry
        if p > 0:
            ctx.count("page_breaks_with_geometry_checked")
            here = {k: pg.setup.get(k) for k in GEOM}
            start = {k: doc.setup.get(k) for k in GEOM}
            if here != start:
                missing = [k for k in GEOM if here[k] is None]
                mech = None
                if kind == "figure" and len(missing) == len(GEOM):
                    mech = "figure_page_break_without_geometry"
                elif not missing and all(abs(here[k] - start[k]) <= 1 for k in GEOM):
                    mech = "page_break_truncates_where_start_rounds"
                ctx.violation(f"page {p + 1} does not restate the document-start geometry: "
                              f"{ {k: (here[k], start[k]) for k in GEOM if here[k] != start[k]} }", case,
                              {"page": p, "here": here, "start": start, "mech": mech})
    # document start geometry
    geo, land = expected_geometry(page)
    for k in GEOM:
        got = doc.setup.get(k)
        if got is None or abs(got - geo[k] * 1440) > 1:
            ctx.violation(f"document-start {k}={got}, configured {geo[k]} in = {geo[k] * 1440:.2f} twips", case,
                          {"key": k, "got": got, "want_in": geo[k]})
            break
    if bool(doc.setup.get("landscape")) != land:
        ctx.violation(f"\\landscape flag {bool(doc.setup.get('landscape'))} for orientation "
                      f"{page.get('orientation', 'portrait')}", case, None)
    # page header / footer destinations
    for key, grp, word in (("page_header", doc.headers, "\\header"), ("page_footer", doc.footers, "\\footer")):
        cfg = spec.get(key)
        exp = 1 if isinstance(cfg, dict) and (key == "page_header" and "text" not in cfg or cfg.get("text")) else 0
        if len(grp) != exp:
            ctx.violation(f"{len(grp)} {word} destinations, expected {exp}", case, {"key": key})
    return n


def check_multi(ctx, rng, spec):
    """Multi-section documents are outside the statement's quantifier (their sections carry the text components
    section by section).  One consequence of the statement is decided for them all the same: which pages show the
    subline, the footnote and the source is selected by the placement options - NOT by whether a title is given
    (omitted, rtf_title=None, a title with text)."""
    case = strip_meta(spec)
    seen = {}
    for label, t in (("omitted", "default"), ("None", None), ("text", {"text": "TT0"})):
        s2 = dict(spec)
        if t == "default":
            s2.pop("title", None)
        else:
            s2["title"] = t
        o = H.build_and_encode(s2)
        if o.stage is not None:
            ctx.count("multi_section_variants_not_encoded")
            return
        doc = R.parse(o.out)
        ctx.count("docs_parsed")
        per = []
        for pg in doc.pages:
            names = [r for r, _ in E.page_roles(pg)]
            per.append((sum(1 for r in names if r == "subline"),
                        sum(1 for r in names if r in ("footnote_row", "footnote_para")),
                        sum(1 for r in names if r in ("source_row", "source_para"))))
            ctx.count("pages_checked")
        seen[label] = per
    ctx.count("multi_section_title_variant_sets")
    ctx.case(case, len(seen["text"]) >= 1 and isinstance(spec.get("subline"), dict))
    if len({json.dumps(v) for v in seen.values()}) > 1:
        ctx.violation(f"multi-section: (subline, footnote, source) counts per page depend on the title argument: "
                      f"{ {k: v[:4] for k, v in seen.items()} }", case, {"per_page": seen})


def check_spec(ctx, rng, spec, metamorphic=True):
    if spec.get("kind") == "multi":
        return check_multi(ctx, rng, spec)
    case = strip_meta(spec)
    o = H.build_and_encode(spec)
    if o.stage == "build":
        ctx.count("rejected_at_construction")
        ctx.notes.append("rejected: " + repr(o.exc)[:150])
        return
    if o.stage == "encode":
        ctx.case(case, True)
        info = H.exc_info(o.exc)
        ctx.violation(f"rtf_encode raised {info['exc']} @ {info['where']}", case, info)
        return
    n = check_doc(ctx, spec, o.out, case)
    if n is None:
        return
    ctx.case(case, n >= 2)
    ctx.sample({"pages": n, "page": spec.get("page"), "footnote_as_table": (spec.get("footnote") or {}).get("as_table"),
                "strategy": {k: spec.get("body", {}).get(k) for k in ("page_by", "subline_by", "new_page")}}, limit=3)
    if spec.get("kind") == "figure":
        ctx.count("figure_docs")
    if n == 1 and metamorphic and spec.get("kind", "table") == "table":
        ctx.count("one_page_metamorphic_sets")
        outs = {}
        for a, b, c in itertools.product(PLACES, repeat=3):
            s2 = dict(spec)
            s2["page"] = dict(spec.get("page", {}), page_title=a, page_footnote=b, page_source=c)
            o2 = H.build_and_encode(s2)
            outs[(a, b, c)] = o2.out if o2.stage is None else f"<{o2.stage} raised {o2.exc!r}>"
        vals = set(outs.values())
        if len(vals) > 1:
            base = outs[("all", "all", "all")]
            diff = [k for k, v in outs.items() if v != base]
            mech = None
            ctx.violation(f"one-page document renders differently under placement options {diff[:3]}", case,
                          {"differs_for": [list(d) for d in diff], "mech": mech})


def gen_random(rng):
    if rng.random() < 0.35:
        spec = G.gen_figure_spec(rng, nfig=(1, 6), rich=0.0)
        return spec
    if rng.random() < 0.2:
        # multi-section documents (see check_multi: only the clause that the title's presence does not move the
        # other text components is decided for them)
        spec = G.gen_multi_spec(rng, nsec=(2, 3), nrows=rng.choice([(1, 4), (4, 14)]), ncols=(1, 4), attrs_p=0.0,
                                rich=0.0, nrow=rng.randint(6, 14), grouping=False)
        pg = spec.setdefault("page", {})
        for k in ("page_title", "page_footnote", "page_source"):
            if rng.random() < 0.8:
                pg[k] = rng.choice(PLACES)
        if rng.random() < 0.5:
            spec["subline"] = {"text": "SL0"}
        return spec
    spec = G.gen_table_spec(rng, nrows=rng.choice([(0, 4), (8, 20), (25, 60)]), ncols=(1, 5),
                            strategy=rng.choice(["plain", "page_by", "page_by_new", "subline", "nested",
                                                 "subline_page_by"]),
                            nrow=rng.randint(6, 14), attrs_p=0.0, rich=0.0, col_rel_width=False)
    return spec


def run_shard(desc, ctx):
    rng = random.Random(desc["seed"])
    if desc["kind"] == "product":
        for item in desc["items"]:
            for size in (0, 1, 2):
                ctx.count("product_cases")
                check_spec(ctx, rng, make_spec(rng, *item, size))
    else:
        for _ in range(desc["n"]):
            check_spec(ctx, rng, gen_random(rng), metamorphic=rng.random() < 0.3)


def replay(data, ctx):
    spec = data["case"]
    if spec.get("kind") == "figure":
        for f in spec["figure"]["files"]:
            f.setdefault("_fmt", "png")
    check_spec(ctx, random.Random(0), spec)
