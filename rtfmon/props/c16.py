"""C16 - figures are embedded byte-exactly, one per page, at the configured size."""
from __future__ import annotations

import random

from .. import expect as E
from .. import gen as G
from .. import harness as H
from .. import reader as R
from ..spec import strip_meta

PID = "C16"
LEVEL = "exploration"
RULE = ("figure documents with 1..6 generated image files (valid PNG signature+IHDR with dims 1..2^31-1, JPEG "
        "SOI + 0..3 APPn/DQT/COM segments + any of the 13 SOF markers with dims 1..65535, EMF; payload lengths "
        "incl. 0/1/39/40/41/79/80/81 bytes around the 80-hex-digit line wrap), suffix case variants, scalar and "
        "list fig_width/fig_height of every length relation to the figure count, all placements, optional "
        "title / paragraph footnote / source. non-trivial = >=2 figures or a size list shorter/longer than the "
        "figure count; distinct by spec hash")
ASSUMPTIONS = ["EMF carries no pixel size the statement could pin: only picw/pich > 0 is required",
               "display size: within 1 twip of inches x 1440"]
DECIDING = ["docs_parsed", "pictures_compared", "payload_bytes_compared", "caption_pages_checked"]
FLOOR = {"quick": 2000, "thorough": 20000}
BLIP = {"png": "pngblip", "jpeg": "jpegblip", "emf": "emfblip"}


def plan(tier, seed):
    per = 300 if tier == "quick" else 2500
    return [{"n": per} for _ in range(16)]


def classify(v):
    return None


def dim_at(v, i, default=5.0):
    if v is None:
        return default
    if isinstance(v, (int, float)):
        return v
    return v[i] if i < len(v) else v[-1]


def check_spec(ctx, spec):
    case = strip_meta(spec)
    o = H.build_and_encode(spec)
    if o.stage == "build":
        ctx.count("rejected_at_construction")
        ctx.notes.append("construction rejected: " + repr(o.exc)[:200])
        return
    files = spec["figure"]["files"]
    if spec["figure"].get("order"):
        files = [files[i] for i in spec["figure"]["order"]]
        ctx.count("docs_with_repeated_figure")
    fkw = spec["figure"].get("kw", {})
    k = len(files)
    lens = [len(v) if isinstance(v, list) else None for v in (fkw.get("fig_width"), fkw.get("fig_height"))]
    ctx.case(case, k >= 2 or any(n is not None and n != k for n in lens))
    ctx.sample({"files": [(f["name"], len(f["hex"]) // 2, f.get("_w"), f.get("_h")) for f in files],
                "kw": fkw, "page": spec.get("page")}, limit=3)
    if o.stage == "encode":
        info = H.exc_info(o.exc)
        ctx.violation(f"rtf_encode raised {info['exc']} @ {info['where']}: {info['msg'][:80]}", case, info)
        return
    doc = R.parse(o.out)
    ctx.count("docs_parsed")
    if doc.errors:
        ctx.violation("figure document not well-formed: " + str(doc.errors[:2]), case, {"errors": str(doc.errors[:5])})
    if len(doc.pages) != k:
        ctx.violation(f"{k} figures but {len(doc.pages)} pages", case, {"pages": len(doc.pages)})
        return
    page = spec.get("page", {})
    places = {"title": page.get("page_title", "all"), "footnote_para": page.get("page_footnote", "last"),
              "source_para": page.get("page_source", "last")}
    present = {"title": isinstance(spec.get("title", "default"), dict),
               "footnote_para": isinstance(spec.get("footnote"), dict),
               "source_para": isinstance(spec.get("source"), dict)}
    for i, pg in enumerate(doc.pages):
        roles = E.page_roles(pg)
        picts = [b for r, b in roles if r == "pict"]
        if len(picts) != 1:
            ctx.violation(f"page {i} holds {len(picts)} pictures (one per page expected)", case, {"page": i})
            continue
        p = picts[0]
        f = files[i]
        raw = bytes.fromhex(f["hex"])
        ctx.count("pictures_compared")
        ctx.count("payload_bytes_compared", len(raw))
        ctx.count("fmt_" + f["_fmt"])
        if p.data != raw:
            n = next((j for j, (a, b) in enumerate(zip(p.data, raw)) if a != b), min(len(p.data), len(raw)))
            ctx.violation(f"figure {i} payload differs from the file at byte {n} (len {len(p.data)} vs {len(raw)})",
                          case, {"figure": i, "offset": n})
        if BLIP[f["_fmt"]] not in p.props:
            ctx.violation(f"figure {i} ({f['name']}) not tagged {BLIP[f['_fmt']]}: {sorted(p.props)}", case,
                          {"figure": i, "props": p.props})
        pw, ph = p.props.get("picw"), p.props.get("pich")
        if f["_fmt"] in ("png", "jpeg"):
            if (pw, ph) != (f["_w"], f["_h"]):
                ctx.violation(f"figure {i} pixel size {pw}x{ph} but the image is {f['_w']}x{f['_h']}", case,
                              {"figure": i, "fmt": f["_fmt"], "got": [pw, ph], "want": [f["_w"], f["_h"]]})
        elif not (pw and ph and pw > 0 and ph > 0):
            ctx.violation(f"EMF figure {i} has non-positive pixel size {pw}x{ph}", case, {"figure": i})
        ww = dim_at(fkw.get("fig_width"), i)
        hh = dim_at(fkw.get("fig_height"), i)
        gw, gh = p.props.get("picwgoal"), p.props.get("pichgoal")
        if gw is None or gh is None or abs(gw - ww * 1440) > 1 or abs(gh - hh * 1440) > 1:
            ctx.violation(f"figure {i} display size {gw}x{gh} twips, configured {ww}x{hh} in", case,
                          {"figure": i, "got": [gw, gh], "want_in": [ww, hh]})
        # captions
        ctx.count("caption_pages_checked")
        for role in ("title", "footnote_para", "source_para"):
            cnt = sum(1 for r, _ in roles if r == role)
            want = 1 if present[role] and E.select(places[role], i, k) else 0
            if cnt != want:
                ctx.violation(f"{role} appears {cnt}x on figure page {i + 1}/{k} with placement "
                              f"'{places[role]}' (expected {want})", case,
                              {"role": role, "page": i, "pages": k, "place": places[role]})
        unk = [b for r, b in roles if r is None]
        if unk:
            ctx.violation("unclassifiable block on figure page: " + repr(getattr(unk[0], "text", ""))[:60], case,
                          {"page": i})
        # order: title before picture before footnote before source
        seq = [r for r, _ in roles if r in ("title", "pict", "footnote_para", "source_para")]
        rank = {"title": 0, "pict": 1, "footnote_para": 2, "source_para": 3}
        if [rank[r] for r in seq] != sorted(rank[r] for r in seq):
            ctx.violation(f"caption order on figure page {i}: {seq}", case, {"page": i, "seq": seq})


def run_shard(desc, ctx):
    rng = random.Random(desc["seed"])
    for _ in range(desc["n"]):
        check_spec(ctx, G.gen_figure_spec(rng, rich=0.15))


def replay(data, ctx):
    spec = data["case"]
    # metadata needed by the oracle is re-derived from the file bytes
    import struct
    for f in spec["figure"]["files"]:
        raw = bytes.fromhex(f["hex"])
        low = f["name"].lower()
        if low.endswith(".png"):
            f["_fmt"] = "png"; f["_w"], f["_h"] = struct.unpack(">II", raw[16:24])
        elif low.endswith(".emf"):
            f["_fmt"] = "emf"; f["_w"] = f["_h"] = None
        else:
            f["_fmt"] = "jpeg"
            i = 2
            while i < len(raw):
                if raw[i] == 0xFF and raw[i + 1] in G.SOF_MARKERS:
                    f["_h"], f["_w"] = struct.unpack(">HH", raw[i + 5:i + 9]); break
                i += 2 + struct.unpack(">H", raw[i + 2:i + 4])[0]
    check_spec(ctx, spec)
