"""Common execution helpers: build + encode a spec, install in-process monitors."""
from __future__ import annotations

import contextlib
import io
import shutil
import tempfile

from . import spec as S


class Outcome:
    __slots__ = ("stage", "exc", "doc", "out", "tmpdir")

    def __init__(self):
        self.stage = None     # None | "build" | "encode"
        self.exc = None
        self.doc = None
        self.out = None
        self.tmpdir = None


_FIGDIR = None


def figure_dir():
    """ONE directory per process: successive figure documents overwrite the same paths
    (fig0.png, ...) with new content, as users re-running a plotting script do - so a
    stale per-path cache in the library becomes observable."""
    global _FIGDIR
    if _FIGDIR is None:
        import atexit
        _FIGDIR = tempfile.mkdtemp(prefix="rtfmon-fig-")
        atexit.register(shutil.rmtree, _FIGDIR, True)
    return _FIGDIR


def build_and_encode(spec, keep_tmp=False) -> Outcome:
    o = Outcome()
    td = figure_dir() if spec.get("kind") == "figure" else None
    keep_tmp = True
    o.tmpdir = td
    try:
        try:
            o.doc = S.build(spec, td)
        except Exception as e:  # noqa
            o.stage, o.exc = "build", e
            return o
        try:
            with contextlib.redirect_stdout(io.StringIO()):
                o.out = o.doc.rtf_encode()
        except Exception as e:  # noqa
            o.stage, o.exc = "encode", e
        return o
    finally:
        if td and not keep_tmp:
            shutil.rmtree(td, ignore_errors=True)


def exc_info(e) -> dict:
    import traceback
    tb = traceback.extract_tb(e.__traceback__)
    where = ""
    for fr in reversed(tb):
        if "/rtflite/" in fr.filename:
            where = f"{fr.filename.split('/rtflite/')[-1]}:{fr.lineno}:{fr.name}"
            break
    return {"exc": type(e).__name__, "msg": str(e)[:300], "where": where}


class RowHook:
    """Invariant at a hook: every Row._as_rtf call emits exactly one cell
    definition and one cell content per Cell of the row (C01 cross-check)."""

    def __init__(self):
        self.calls = 0
        self.bad = []
        self._orig = None

    def install(self):
        from rtflite.row import Row
        self._orig = Row._as_rtf
        hook = self

        def wrapped(self_row):
            res = hook._orig(self_row)
            hook.calls += 1
            n = len(self_row.row_cells)
            ndef = sum(1 for x in res if "\\cellx" in x)
            ncell = sum(1 for x in res if x.endswith("\\cell"))
            if not (n == ndef == ncell) or n < 1:
                if len(hook.bad) < 5:
                    hook.bad.append({"cells": n, "defs": ndef, "contents": ncell})
            return res

        Row._as_rtf = wrapped
        return self

    def uninstall(self):
        from rtflite.row import Row
        if self._orig is not None:
            Row._as_rtf = self._orig
            self._orig = None


def provoke_failures():
    """Calls that FAIL, made once at the start of a shard process (every second shard): whatever a failed call
    leaves behind in the process (a remapped font, a flag, a half-set context) must not change what the
    following, ordinary calls observe.  Returns the number of calls that raised."""
    import contextlib as _c
    import io as _io
    raised = 0
    try:
        from rtflite.strwidth import get_string_width
    except Exception:  # noqa
        return 0
    probes = []
    for f in range(1, 11):
        probes.append(dict(text="width probe", font=f, font_size=0.25))      # FreeType: invalid ppem
        probes.append(dict(text="width probe", font=f, font_size=1e9))
    probes += [dict(text="x", font=0), dict(text="x", font=11), dict(text="x", font="No Such Font"),
               dict(text="x", unit="cm"), dict(text="x", font_size=0), dict(text="x", font_size=-3),
               dict(text=None)]
    for kw in probes:
        try:
            get_string_width(**kw)
        except BaseException:  # noqa
            raised += 1
    try:
        import polars as pl
        import rtflite as rtf
        df = pl.DataFrame({"a": ["x", "y", "x"], "b": ["wide text " * 30] * 3})
        docs = [
            lambda: rtf.RTFDocument(df=df, rtf_body=rtf.RTFBody(group_by=["a"], text_color="red")),     # ValueError
            lambda: rtf.RTFDocument(df=df, rtf_body=rtf.RTFBody(text_font_size=0.25, text_font=9),
                                    rtf_page=rtf.RTFPage(nrow=5)),
            lambda: rtf.RTFDocument(df=[df, df], rtf_body=[rtf.RTFBody(), rtf.RTFBody(group_by=["a"])],
                                    rtf_page=rtf.RTFPage(border_first="double", border_last="double")),
        ]
        for mk in docs:
            try:
                d = mk()
                with _c.redirect_stdout(_io.StringIO()):
                    d.rtf_encode()
            except BaseException:  # noqa
                raised += 1
        # a palette made invalid after construction fails inside the colour lookup
        try:
            d = rtf.RTFDocument(df=df, rtf_body=rtf.RTFBody(text_color=["red", "blue"]))
            d.rtf_body.text_color = [["red", "notacolour"]]
            with _c.redirect_stdout(_io.StringIO()):
                d.rtf_encode()
        except BaseException:  # noqa
            raised += 1
    except Exception:  # noqa
        pass
    return raised


class Sentinels:
    """A few fixed documents encoded BEFORE a shard's workload and again AFTER it (thousands of other documents,
    tens of thousands of measured strings later): whatever fills up, wraps around or is evicted in between must not
    change what they encode to."""
    NAMES = ["graded_s9", "paged_s8", "col_a", "pageby", "title_vec", "names_a"]

    def __init__(self):
        from .props import c14
        self.specs = {n: c14.POOL[n] for n in self.NAMES if n in c14.POOL}
        self.before = {}

    def _encode(self, spec):
        o = build_and_encode(spec)
        return ("exc", type(o.exc).__name__) if o.stage else ("ok", o.out)

    def start(self):
        self.before = {n: self._encode(sp) for n, sp in self.specs.items()}

    def finish(self, ctx):
        for n, sp in self.specs.items():
            again = self._encode(sp)
            ctx.count("sentinel_documents_re_encoded_after_the_workload")
            if again != self.before.get(n):
                a, b = self.before[n], again
                where = ""
                if a[0] == b[0] == "ok":
                    i = next((k for k, (x, y) in enumerate(zip(a[1], b[1])) if x != y), min(len(a[1]), len(b[1])))
                    where = f" at char {i}: ...{a[1][max(0, i - 25):i + 25]!r} vs ...{b[1][max(0, i - 25):i + 25]!r}"
                ctx.violation(f"sentinel document {n} encodes differently after this shard's workload than before it"
                              + where, {"sentinel": n, "cases_in_between": ctx.cases}, None)
