#!/bin/sh
# usage: tools/harvest_regress.sh <label> <patch.diff | rev:COMMIT> ID [ID...]
# Runs the checks against a scratch worktree carrying the change and keeps up to 2 replay files per
# violation signature as regression cases under replays/<ID>/regress/<label>-*.json
set -u
label="$1"; what="$2"; shift 2
wt=$(mktemp -d /tmp/rtfreg.XXXXXX)
case "$what" in
  rev:*) git -C /repo worktree add -q --detach "$wt" "${what#rev:}" || exit 2 ;;
  *) git -C /repo worktree add -q --detach "$wt" "${BASE:-HEAD}" || exit 2
     git -C "$wt" apply "$what" 2>/dev/null || git -C "$wt" apply --3way "$what" || { echo "patch does not apply: $what"; git -C /repo worktree remove --force "$wt"; exit 2; } ;;
esac
cd /verif || exit 2
for id in "$@"; do
  RTFMON_REPO="$wt" ./check "$id" --tier quick > /dev/null 2>&1
  src="/verif/.work/scratch-$(basename "$wt")/replays/$id"
  n=0
  if [ -d "$src" ]; then
    mkdir -p "replays/$id/regress"
    for f in $(ls -S "$src"/*.json 2>/dev/null | tail -4); do
      n=$((n+1)); cp "$f" "replays/$id/regress/$label-$n.json"
    done
  fi
  echo "$label $id: $n regression cases"
done
git -C /repo worktree remove --force "$wt"
rm -rf "/verif/.work/scratch-$(basename "$wt")"
