"""C18 - exports are all-or-nothing and leave no debris.

Fault enumeration on the real exporters: an InjectedFault is raised at the k-th
library function entry, k swept over EVERY boundary of the export; converter
stubs fail before/after producing output or return malformed results; targets
exist / do not exist / sit in missing directories.  Observed: file-system
snapshots of the target directory and a private TMPDIR before/after, an audit
hook trace ordered against "rtf_encode returned", the string the inner
rtf_encode returned, and the exception leaving the call.
"""
from __future__ import annotations

import contextlib
import io
import os
import pathlib
import random
import shutil
import tempfile

from .. import spec as S
from ..faults import AuditTrace, InjectedFault, Injector, snapshot
from . import c14

PID = "C18"
LEVEL = "fault_enumeration"
RULE = ("one injected exception per run at library call boundary k, k = 1..N for every boundary of the export "
        "(N measured on a clean run), for the listed (exporter, document, target state) combinations; plus the "
        "converter stub matrix {ok, raise before writing, raise after writing, returns str, returns list, returns "
        "missing path, html with resource folder} x {docx, pdf, html} x {target absent, present, in missing "
        "directories, resource folder already present}. non-trivial = the fault propagated out of the call or "
        "the stub misbehaved; distinct by (exporter, document, target state, k | stub)")
ASSUMPTIONS = ["fault model: Python exceptions raised at function entries inside src/rtflite; faults inside the "
               "standard library (disk full during write_text/shutil.move) are not injected",
               "converter stubs subclass LibreOfficeConverter and bypass the executable lookup (LibreOffice is absent); "
               "in addition the REAL LibreOfficeConverter is driven against a fake soffice executable that succeeds, "
               "fails before/after writing, or writes nothing",
               "directories created for a missing parent path are not debris"]
DECIDING = ["faults_injected", "faults_propagated", "fs_snapshots_compared", "stub_runs", "clean_runs_verified",
            "real_converter_runs"]
FLOOR = {"quick": 2500, "thorough": 20000}
EXHAUSTIVE_NOTE = {"quick": "every call boundary of write_rtf and write_docx for one coloured document, target present",
                   "thorough": "every call boundary of write_rtf/write_docx/write_html/write_pdf x 4 documents x target present/absent"}

EXPORTERS = ["rtf", "docx", "html", "pdf"]


def exhaustive(tier):
    return True


def plan(tier, seed):
    descs = []
    if tier == "quick":
        combos = [("rtf", "col_a", "present"), ("docx", "col_a", "present")]
        k = 7
    else:
        combos = [(e, d, t) for e in EXPORTERS for d in ("col_a", "paged", "multi_a", "figure")
                  for t in ("present", "absent")]
        combos += [("real:docx", "col_a", "present"), ("real:html", "col_a", "absent")]
        k = 1
    for e, d, t in combos:
        for i in range(k):
            descs.append({"kind": "sweep", "exporter": e, "doc": d, "target": t, "lo": i, "step": k,
                          "timeout": 1800})
    descs.append({"kind": "stubs", "reps": 1 if tier == "quick" else 5})
    descs.append({"kind": "stubs", "reps": 1 if tier == "quick" else 5})
    return descs


def classify(v):
    return (v.get("detail") or {}).get("mech")


FAKE_SOFFICE = r"""#!/bin/sh
# stand-in for the LibreOffice executable (absent in this sandbox), driven by FAKE_SOFFICE_MODE
if [ "$1" = "--version" ]; then echo "LibreOffice 24.8.3.2 0123abcd"; exit 0; fi
while [ $# -gt 0 ]; do
  case "$1" in
    --convert-to) fmt="$2"; shift 2 ;;
    --outdir) out="$2"; shift 2 ;;
    -*) shift ;;
    *) in="$1"; shift ;;
  esac
done
stem=$(basename "$in" .rtf)
produce() { printf 'CONVERTED[%s]:' "$fmt" > "$out/$stem.$fmt"; cat "$in" >> "$out/$stem.$fmt"; }
case "$FAKE_SOFFICE_MODE" in
  ok) produce ;;
  fail_before) echo "conversion failed" >&2; exit 3 ;;
  fail_after) produce; echo "crashed late" >&2; exit 3 ;;
  no_output) exit 0 ;;
  html_resources) produce; mkdir "$out/$stem.${fmt}_files"; printf 'IMG' > "$out/$stem.${fmt}_files/img.png" ;;
esac
exit 0
"""


def make_stub(mode, arena=None):
    from rtflite.convert import LibreOfficeConverter
    if mode.startswith("real:"):
        # the REAL LibreOfficeConverter (version check, command line, subprocess, error handling)
        # driving a fake executable
        exe = os.path.join(arena.base, "soffice")
        if not os.path.exists(exe):
            with open(exe, "w") as f:
                f.write(FAKE_SOFFICE)
            os.chmod(exe, 0o755)
        os.environ["FAKE_SOFFICE_MODE"] = mode.split(":", 1)[1]
        conv = LibreOfficeConverter(executable_path=exe)
        conv.produced = None
        return conv

    class Stub(LibreOfficeConverter):
        def __init__(self):
            self.calls = 0
            self.produced = None

        def convert(self, input_files, output_dir, format="pdf", overwrite=False):
            self.calls += 1
            src = pathlib.Path(input_files)
            out = pathlib.Path(output_dir) / (src.stem + "." + format)
            payload = b"CONVERTED[" + format.encode() + b"]:" + src.read_bytes()
            if mode == "raise_before":
                raise RuntimeError("stub: conversion failed before writing")
            if mode != "ret_missing":
                out.write_bytes(payload)
                self.produced = payload
            if mode == "html_resources" or (mode == "ok" and format == "html" and False):
                res = out.with_name(out.name + "_files")
                res.mkdir()
                (res / "img.png").write_bytes(b"IMG:" + payload[:16])
            if mode == "raise_after":
                raise RuntimeError("stub: conversion failed after writing")
            if mode == "ret_str":
                return str(out)
            if mode == "ret_list":
                return [out]
            return out
    return Stub()


def res_dir_of(target):
    """where the HTML resource folder belongs: next to the target, under the name the converter gave it - it
    derives it from the document's name (<stem>.html_files) and the HTML file refers to it by that name,
    whatever suffix the caller chose for the target (.html, .htm, .HTML, none)"""
    d, f = os.path.split(target)
    stem = f[:f.rindex(".")] if "." in f[1:] else f
    return os.path.join(d, stem + ".html_files")


class Arena:
    """a private base directory with out/ (target directory) and tmp/ (TMPDIR)"""

    def __init__(self):
        self.base = tempfile.mkdtemp(prefix="rtfmon-c18-")
        self.out = os.path.join(self.base, "out")
        self.tmp = os.path.join(self.base, "tmp")
        os.makedirs(self.tmp)
        self._saved = tempfile.tempdir
        tempfile.tempdir = self.tmp

    def reset(self, target_state, ext, stem="doc"):
        shutil.rmtree(self.out, ignore_errors=True)
        for n in os.listdir(self.tmp):
            shutil.rmtree(os.path.join(self.tmp, n), ignore_errors=True)
        os.makedirs(self.out)
        if target_state == "nested":
            target = os.path.join(self.out, "a", "b", stem + "." + ext)
        else:
            target = os.path.join(self.out, stem + ("." + ext if ext else ""))
        if target_state == "is_directory":
            # the requested path is an existing directory: the export has to fail and leave nothing behind
            os.makedirs(target)
            with open(os.path.join(target, "keep.txt"), "wb") as f:
                f.write(b"KEEP")
        if target_state in ("present", "present_resources"):
            with open(target, "wb") as f:
                f.write(b"OLD CONTENT")
        if target_state == "present_resources":
            os.makedirs(res_dir_of(target))
            with open(os.path.join(res_dir_of(target), "stale.png"), "wb") as f:
                f.write(b"STALE")
        return target

    def close(self):
        tempfile.tempdir = self._saved
        shutil.rmtree(self.base, ignore_errors=True)


PATH_FORM = [0]      # rotated by call_export: how the caller spells the target path


def call_export(doc, exporter, target, stub):
    """the same target, spelled as an absolute str, a pathlib.Path, a path relative to the current directory, or a
    path with redundant segments - the file has to land at the same place"""
    import pathlib
    PATH_FORM[0] += 1
    form = PATH_FORM[0] % 5
    arg, cwd = target, None
    if form == 1:
        arg = pathlib.Path(target)
    elif form == 2:
        cwd = os.getcwd()
        base = os.path.dirname(os.path.dirname(target)) or "/"
        os.chdir(base)
        arg = os.path.relpath(target, base)
    elif form == 3:
        d, f = os.path.split(target)
        arg = os.path.join(d, ".", "..", os.path.basename(d), f)      # only segments that exist
        if not os.path.isdir(d):
            arg = target          # (redundant segments need the directory to exist)
    elif form == 4:
        cwd = os.getcwd()
        os.chdir(os.path.dirname(os.path.dirname(target)) or "/")
        arg = pathlib.Path(os.path.relpath(target, os.getcwd()))
    try:
        with contextlib.redirect_stdout(io.StringIO()):
            if exporter == "rtf":
                doc.write_rtf(arg)
            else:
                getattr(doc, "write_" + exporter)(arg, converter=stub)
    finally:
        if cwd is not None:
            os.chdir(cwd)


class EncodeTap:
    """records the string the inner rtf_encode returned and marks the moment"""

    def __init__(self, trace):
        from rtflite.encode import RTFDocument
        self.cls = RTFDocument
        self.orig = RTFDocument.rtf_encode
        self.last = None
        tap = self

        def enc(self_d):
            out = tap.orig(self_d)
            tap.last = out
            trace.encode_done = True
            return out
        RTFDocument.rtf_encode = enc

    def close(self):
        self.cls.rtf_encode = self.orig


def judge(ctx, case, arena, target, before, raised, tap, stub, exporter, events, mode="ok"):
    after = snapshot(arena.out)
    tmp_after = snapshot(arena.tmp)
    ctx.count("fs_snapshots_compared")
    rel = os.path.relpath(target, arena.out)
    detail = {"raised": repr(raised)[:160] if raised else None}

    def bad(what, **kw):
        d = dict(detail)
        d.update(kw)
        ctx.violation(what, case, d)

    if tmp_after:
        bad(f"temporary files left behind: {sorted(tmp_after)[:4]}", mech=None)
    parents = set()
    p = os.path.dirname(rel)
    while p and p != ".":
        parents.add(os.path.normpath(p)); p = os.path.dirname(p)
    new = {k for k in after if k not in before} - parents
    gone = {k for k in before if k not in after}
    changed = {k for k in before if k in after and before[k] != after[k]}
    res_rel = os.path.relpath(res_dir_of(target), arena.out)
    # trace rule: the target is never opened for writing before encoding finished
    for ev in events:
        if ev[0] == "open" and os.path.abspath(ev[1]) == os.path.abspath(target):
            mode_s = str(ev[2])
            if any(c in mode_s for c in "wax+") and not ev[4]:
                bad("target opened for writing before rtf_encode finished", trace=str(ev))
    if raised is not None:
        if rel in changed or rel in gone:
            bad("export raised but the pre-existing target was modified/removed")
        if rel in new:
            bad("export raised but left a (partial) target file")
        extra = (new | gone | changed) - {rel}
        if extra:
            bad(f"export raised and changed other files: {sorted(extra)[:4]}")
        return
    # returned normally
    if case.get("target") == "is_directory":
        bad("export to a path that is an existing directory returned normally")
        return
    if rel not in after:
        bad("export returned but no file exists at the target path")
        return
    data = open(target, "rb").read()
    if exporter == "rtf":
        want = (tap.last or "").encode("utf-8")
    elif mode.startswith("real:"):
        want = b"CONVERTED[" + exporter.encode() + b"]:" + (tap.last or "").encode("utf-8")
    else:
        want = stub.produced
    if want is None or data != want:
        bad("export returned but the target does not hold the expected content",
            got=data[:60].decode("latin-1"), want=(want or b"")[:60].decode("latin-1"))
    allowed = {rel}
    if exporter == "html" and mode.endswith("html_resources"):
        allowed |= {res_rel, os.path.join(res_rel, "img.png")}
        if os.path.join(res_rel, "img.png") not in after:
            bad("HTML resource folder did not end up next to the target", mech=None)
        elif not open(os.path.join(arena.out, res_rel, "img.png"), "rb").read().startswith(b"IMG"):
            bad("HTML resource folder next to the target does not hold the converter's image", mech=None)
        inside = sorted(k for k in after if k.startswith(res_rel + os.sep))
        if inside != [os.path.join(res_rel, "img.png")]:
            bad(f"HTML resource folder holds {inside}, expected exactly the converter's resources",
                mech="html_resources_nested_in_stale_folder")
    extra = (new | changed | gone) - allowed
    if exporter == "html" and mode.endswith("html_resources"):
        # stale content of a previous export's resource folder is replaced (checked above)
        extra = {k for k in extra if not k.startswith(res_rel + os.sep)}
    if extra:
        bad(f"export returned but also changed: {sorted(extra)[:4]}")


# file names a user may ask for: characters that are special to glob/fnmatch/regex/shell, several dots,
# blanks, non-ASCII - the export must land at exactly that name
STEMS = ["doc", "table[1]", "listing [a-c]", "re*port", "a?b", "out put", "t.1.2", "tab\u00e9", "-x", "{a,b}",
         "x[!y]", "50%", "a'b"]


def run_one(ctx, env, exporter, docname, target_state, k=None, stub_mode="ok", label="", stem="doc", ext=None):
    arena, inj, trace, tap, docs = env
    import rtflite
    other_ext = ext is not None
    if ext is None:
        ext = {"rtf": "rtf", "docx": "docx", "html": "html", "pdf": "pdf"}[exporter]
    case_crlf = target_state == "reexport_crlf"
    if case_crlf:
        target_state = "reexport"
    the_doc = docs[docname]
    derived = target_state if target_state in ("derived", "derived_title", "edited_title") else None
    if derived:
        # the exported object is a model_copy(update={"df": ...}) of a document that was exported before
        target_state = "absent"
    target = arena.reset("absent" if target_state == "reexport" else target_state, ext, stem)
    if target_state == "reexport":
        # the target already holds exactly what this export will produce (an earlier, identical export), but
        # its resource folder was tampered with since: stale image, extra file
        first = make_stub(stub_mode, arena) if exporter != "rtf" else None
        call_export(docs[docname], exporter, target, first)
        if case_crlf:
            data0 = open(target, "rb").read()
            with open(target, "wb") as f:
                f.write(data0.replace(b"\n", b"\r\n"))
        res = res_dir_of(target)
        if os.path.isdir(res):
            with open(os.path.join(res, "img.png"), "wb") as f:
                f.write(b"STALE")
            with open(os.path.join(res, "old.png"), "wb") as f:
                f.write(b"OLD")
        ctx.count("reexports_onto_identical_target")
    if derived:
        first = make_stub(stub_mode, arena) if exporter != "rtf" else None
        call_export(the_doc, exporter, target, first)
        if derived == "derived":
            the_doc = the_doc.model_copy(update={"df": the_doc.df.reverse()})
        elif derived == "derived_title":
            # the same data under another title (a second output of the same table)
            the_doc = the_doc.model_copy(update={"rtf_title": rtflite.RTFTitle(text="TT1 other title")})
        else:
            # ... or the document itself, edited between two exports (and restored afterwards)
            the_doc = the_doc.model_copy()
            the_doc.rtf_title = rtflite.RTFTitle(text="TT2 edited title")
        ctx.count("exports_of_derived_documents")
    before = snapshot(arena.out)
    stub = make_stub(stub_mode, arena) if exporter != "rtf" else None
    case = {"exporter": exporter, "doc": docname,
            "target": "reexport_crlf" if case_crlf else derived if derived else target_state, "k": k,
            "stub": stub_mode}
    if other_ext:
        case["ext"] = ext
        ctx.distinct("target_suffixes", ext)
    if stem != "doc":
        case["stem"] = stem
        ctx.distinct("target_file_names", stem)
    tap.last = None
    trace.start()
    raised = None
    inj.arm(k)
    try:
        call_export(the_doc, exporter, target, stub)
    except InjectedFault as e:
        raised = e
    except Exception as e:  # noqa
        raised = e
    finally:
        inj.disarm()
    events = trace.stop()
    nontrivial = raised is not None or stub_mode != "ok"
    ctx.case(case, nontrivial)
    if k is not None:
        ctx.count("faults_injected")
        if inj.where:
            ctx.distinct("fault_sites", inj.where[0] + ":" + inj.where[1])
        if isinstance(raised, InjectedFault):
            ctx.count("faults_propagated")
        elif raised is None:
            ctx.count("faults_swallowed_by_library(export completed)")
            if inj.where:
                ctx.distinct("swallowing_sites", inj.where[0] + ":" + inj.where[1])
        else:
            ctx.count("faults_converted_to_other_exception")
    ctx.sample({"case": case, "site": inj.where, "raised": repr(raised)[:80] if raised else None,
                "fs_events": [e[0] for e in events][:12]}, limit=4)
    judge(ctx, case, arena, target, before, raised, tap, stub, exporter, events, mode=stub_mode)
    return inj.n, raised


def make_env():
    import rtflite
    root = os.path.dirname(rtflite.__file__)
    arena = Arena()
    inj = Injector(root)
    trace = AuditTrace.get()
    tap = EncodeTap(trace)
    docs = {}
    figdir = tempfile.mkdtemp(prefix="rtfmon-c18fig-", dir=arena.base)
    for n in ("col_a", "paged", "multi_a", "figure", "raising", "plain3"):
        docs[n] = S.build(c14.POOL[n], figdir)
    # texts that no UTF-8 file can hold as they are: lone surrogates (os.fsdecode of an undecodable file name),
    # next to ordinary non-ASCII - rtf_encode() returns pure ASCII for them and so the export must work
    hard_df = c14.tagged(3, 2)
    hard_df["cols"][1]["name"] = "Gr" + chr(0xF6) + chr(0xDF) + "e"
    hard_df["cols"].append({"name": chr(0x5E74) + chr(0x9F62), "dtype": "str", "values": [chr(0xB5) + "g", "x" + chr(0xB2), chr(0x394) + "AUC"]})
    hard = {"kind": "table", "df": hard_df, "body": {},
            "title": {"text": "TT0 caf" + chr(0xE9) + " " + chr(0xDCE9) + chr(0xD800) + " " + chr(0x1F600)},
            "footnote": {"text": "FN0 " + chr(0xDFFF), "as_table": False},
            "page_footer": {"text": "PF0 " + chr(0xDC80)}}
    docs["hardtext"] = S.build(hard, figdir)
    # two subline_by levels, one of them null on the rows that open a page, the other with non-ASCII text; a Float
    # column with NaN; a page_by level that is null
    sub_df = c14.tagged(6, 2)
    sub_df["cols"] += [{"name": "S1", "dtype": "str", "values": [None, None, None, "B", "B", "B"]},
                       {"name": "S2", "dtype": "str", "values": ["Gr" + chr(0xF6) + chr(0xDF) + "e"] * 3 + [chr(0x3B1) + "-Gruppe"] * 3},
                       {"name": "F", "dtype": "floatx", "values": ["nan", "1.5", "nan", "-0.0", "inf", "nan"]},
                       {"name": "P", "dtype": "str", "values": [None, None, "p", "p", None, None]}]
    docs["sub2null"] = S.build({"kind": "table", "df": sub_df, "body": {"subline_by": ["S1", "S2"], "page_by": ["P"]},
                                "title": {"text": "TT0"}}, figdir)
    # a table of everyday length (150 rows, several pages)
    docs["long150"] = S.build({"kind": "table", "df": c14.tagged(150, 3), "body": {}, "title": {"text": "TT0"},
                               "footnote": {"text": "FN0"}}, figdir)
    return arena, inj, trace, tap, docs


def close_env(env):
    arena, inj, trace, tap, docs = env
    tap.close()
    inj.close()
    arena.close()


def run_shard(desc, ctx):
    rng = random.Random(desc["seed"])
    env = make_env()
    try:
        if desc["kind"] == "sweep":
            e, d, t = desc["exporter"], desc["doc"], desc["target"]
            real = e.startswith("real:")
            if real:
                e = e.split(":", 1)[1]
            # clean run: count boundaries and verify the success rule
            stub_mode = "html_resources" if e == "html" else "ok"
            if real:
                stub_mode = "real:" + stub_mode
            n, raised = run_one(ctx, env, e, d, t, k=None, stub_mode=stub_mode)
            n2, _ = run_one(ctx, env, e, d, t, k=None, stub_mode=stub_mode)
            ctx.count("clean_runs_verified", 2)
            if raised is not None:
                ctx.violation(f"clean export raised {raised!r}", {"exporter": e, "doc": d}, None)
                return
            if desc["lo"] == 0:
                ctx.count(f"boundaries_{e}_{d}", n2)
            for k in range(1 + desc["lo"], n2 + 1, desc["step"]):
                run_one(ctx, env, e, d, t, k=k, stub_mode=stub_mode)
        else:
            modes = ["ok", "raise_before", "raise_after", "ret_str", "ret_list", "ret_missing", "html_resources"]
            targets = ["absent", "present", "nested", "present_resources"]
            for _ in range(desc["reps"]):
                for e in ("docx", "pdf", "html"):
                    for m in modes:
                        if m == "html_resources" and e != "html":
                            continue
                        for t in targets:
                            if t == "present_resources" and e != "html":
                                continue
                            ctx.count("stub_runs")
                            run_one(ctx, env, e, rng.choice(["col_a", "plain3", "figure"]), t, stub_mode=m,
                                    stem=rng.choice(STEMS))
                # re-export onto a target that is byte-identical to the new result
                for e in ("html", "docx", "pdf", "rtf"):
                    for d in ("col_a", "plain3"):
                        ctx.count("stub_runs")
                        run_one(ctx, env, e, d, "reexport", stub_mode="html_resources" if e == "html" else "ok",
                                stem=rng.choice(STEMS))
                # (write_rtf only: the converter-based exporters move their result INTO an existing directory,
                # which the property neither demands nor forbids)
                for d in ("col_a", "paged", "hardtext"):
                    ctx.count("stub_runs")
                    run_one(ctx, env, "rtf", d, "is_directory", stem=rng.choice(STEMS))
                for e in ("rtf", "docx", "html", "pdf"):
                    for t in ("absent", "present"):
                        ctx.count("stub_runs")
                        run_one(ctx, env, e, "sub2null", t, stub_mode="html_resources" if e == "html" else "ok")
                for e in ("rtf", "docx", "pdf", "html"):
                    for d in ("col_a", "paged", "plain3"):
                        ctx.count("stub_runs")
                        run_one(ctx, env, e, d, "derived", stub_mode="html_resources" if e == "html" else "ok")
                    for d in ("plain3", "long150"):
                        for t in ("derived_title", "edited_title"):
                            ctx.count("stub_runs")
                            run_one(ctx, env, e, d, t, stub_mode="html_resources" if e == "html" else "ok")
                for d in ("col_a", "paged", "multi_a"):
                    # ... or to the new result with other line ends (a file that went through a Windows tool)
                    ctx.count("stub_runs")
                    run_one(ctx, env, "rtf", d, "reexport_crlf")
                for m in ("real:html_resources",):
                    ctx.count("stub_runs")
                    run_one(ctx, env, "html", "col_a", "reexport", stub_mode=m, stem=rng.choice(STEMS))
                # the caller's own suffix for the target: .htm, upper case, none at all, a second dot
                for x in ("htm", "HTML", "", "Html", "v2.html", "xhtml"):
                    for t in ("absent", "present_resources", "reexport"):
                        ctx.count("stub_runs")
                        run_one(ctx, env, "html", rng.choice(["col_a", "plain3"]), t, stub_mode="html_resources",
                                stem=rng.choice(STEMS[:4]), ext=x)
                for e, x in (("docx", "DOCX"), ("pdf", ""), ("rtf", "txt"), ("rtf", ""), ("docx", "doc")):
                    ctx.count("stub_runs")
                    run_one(ctx, env, e, "col_a", rng.choice(["absent", "present"]), ext=x)
                # every hostile file name with the exporter that has the most path handling
                for stem in STEMS:
                    for t in ("absent", "present_resources"):
                        ctx.count("stub_runs")
                        run_one(ctx, env, "html", rng.choice(["col_a", "plain3"]), t, stub_mode="html_resources",
                                stem=stem)
                    ctx.count("stub_runs")
                    run_one(ctx, env, rng.choice(["docx", "pdf"]), "col_a", rng.choice(targets), stub_mode="ok",
                            stem=stem)
                # the real LibreOfficeConverter driving a fake soffice executable
                for e in ("docx", "pdf", "html"):
                    for m in ("real:ok", "real:fail_before", "real:fail_after", "real:no_output",
                              "real:html_resources"):
                        if m == "real:html_resources" and e != "html":
                            continue
                        for t in ("absent", "present", "nested"):
                            ctx.count("stub_runs")
                            ctx.count("real_converter_runs")
                            run_one(ctx, env, e, rng.choice(["col_a", "plain3"]), t, stub_mode=m,
                                    stem=rng.choice(STEMS))
                # encode failure inside each exporter (document that raises ValueError)
                for e in EXPORTERS:
                    for t in ("absent", "present", "nested"):
                        ctx.count("stub_runs")
                        ctx.count("failing_document_runs")
                        run_one(ctx, env, e, "raising", t)
                # write_rtf: plain success incl. missing parent directories
                for t in ("absent", "present", "nested"):
                    ctx.count("stub_runs")
                    run_one(ctx, env, "rtf", rng.choice(["col_a", "multi_a", "figure"]), t, stem=rng.choice(STEMS))
                    ctx.count("stub_runs")
                    run_one(ctx, env, rng.choice(["rtf", "rtf", "docx", "html", "pdf"]), "hardtext", t)
    finally:
        close_env(env)


def replay(data, ctx):
    env = make_env()
    try:
        c = data["case"]
        run_one(ctx, env, c["exporter"], c["doc"], c["target"], k=c.get("k"), stub_mode=c.get("stub", "ok"),
                stem=c.get("stem", "doc"), ext=c.get("ext"))
    finally:
        close_env(env)
