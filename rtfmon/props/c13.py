"""C13 - group_by blanks only true repeats and restores context on each page.

Oracle on the parsed output: per page, each group_by cell must be blank exactly
when its hierarchical key equals the previous row's and the row is not first on
its page; everything else equals the input.  Non-contiguous keys must raise
ValueError (independent prefix-contiguity predicate), contiguous keys must not.
"""
from __future__ import annotations

import itertools
import random

from .. import expect as E
from .. import gen as G
from .. import harness as H
from .. import reader as R
from ..spec import strip_meta

PID = "C13"
LEVEL = "exploration"
RULE = ("all key sequences over {a,b,null}: 1 group_by level up to length L1, 2 levels up to L2, 3 levels up "
        "to L3 (exhaustive, contiguous and non-contiguous), each at several nrow so that page starts fall on "
        "every row position; plus random sequences up to 60 rows over str/int keys with nulls, combined with "
        "page_by or subline_by on other columns. non-trivial = >=2 rows and (>=2 pages or a repeated key or a "
        "non-contiguous key); distinct by spec hash")
ASSUMPTIONS = ["null is a group value of its own (statement)", "alphabet {a,b,null} for the exhaustive part"]
DECIDING = ["docs_parsed", "groupby_cells_checked", "blank_cells_expected", "page_start_rows_checked",
            "noncontiguous_cases"]
FLOOR = {"quick": 3000, "thorough": 30000}
BOUNDS = {"quick": (6, 3, 2), "thorough": (8, 4, 3)}
EXHAUSTIVE_NOTE = {"quick": "1 level len<=6 x nrow{2,3,5}; 2 levels len<=3 x nrow{2,4}; 3 levels len<=2 x nrow{3}",
                   "thorough": "1 level len<=8 x nrow{2,3,5}; 2 levels len<=4 x nrow{2,3,5}; 3 levels len<=3 x nrow{2,4}"}
ALPHA = ["a", "b", None]


def enumerate_cases(tier):
    L1, L2, L3 = BOUNDS[tier]
    n1 = [2, 3, 5]
    n2 = [2, 4] if tier == "quick" else [2, 3, 5]
    n3 = [3] if tier == "quick" else [2, 4]
    out = []
    for L in range(1, L1 + 1):
        for seq in itertools.product(ALPHA, repeat=L):
            for nrow in n1:
                out.append(([list(seq)], nrow))
    pairs = list(itertools.product(ALPHA, repeat=2))
    for L in range(1, L2 + 1):
        for seq in itertools.product(pairs, repeat=L):
            for nrow in n2:
                out.append(([[p[0] for p in seq], [p[1] for p in seq]], nrow))
    triples = list(itertools.product(ALPHA, repeat=3))
    for L in range(1, L3 + 1):
        for seq in itertools.product(triples, repeat=L):
            for nrow in n3:
                out.append(([[p[k] for p in seq] for k in range(3)], nrow))
    return out


def plan(tier, seed):
    cases = enumerate_cases(tier)
    k = 12
    descs = [{"kind": "enum", "lo": i, "step": k} for i in range(k)]
    per = 300 if tier == "quick" else 3000
    descs += [{"kind": "random", "n": per} for _ in range(4)]
    return descs


def classify(v):
    return None


def make_spec(rng, keycols, nrow, extra=None):
    """group_by columns first (N0..), then a key column, optionally one more"""
    n = len(keycols[0])
    cols = []
    for j, vals in enumerate(keycols):
        nn = [v for v in vals if v is not None]
        if nn and all(isinstance(v, bool) for v in nn):
            dtype = "bool"
        elif nn and all(isinstance(v, int) and not isinstance(v, bool) for v in nn):
            dtype = "int"
        elif nn and all(isinstance(v, (int, float)) and not isinstance(v, bool) for v in nn):
            dtype = "float"
            vals = [None if v is None else float(v) for v in vals]
        elif not nn and rng.random() < 0.5:
            dtype = "null"          # an all-null key column has polars' Null dtype unless typed by hand
        else:
            # the same labels as a string, categorical or enum column
            dtype = rng.choice(["str", "str", "str", "cat", "enum"])
        cols.append({"name": f"N{j}", "dtype": dtype, "values": list(vals)})
    kj = len(cols)
    cols.append({"name": f"N{kj}", "dtype": "str", "values": [f"d{r}c{kj}" for r in range(n)]})
    if rng.random() < 0.5:
        dt, vals = G.gen_column(rng, n)
        cols.append({"name": f"N{kj + 1}", "dtype": dt, "values": vals})
    body = {"group_by": [f"N{j}" for j in range(len(keycols))]}
    if rng.random() < 0.5:
        # the hierarchy is given by the ORDER OF group_by, not by where the columns sit in the frame
        rng.shuffle(cols)
    spec = {"kind": "table", "df": {"cols": cols}, "body": body, "page": {"nrow": nrow},
            "colheader": rng.choice(["none", "none", "default"]), "title": None}
    if extra:
        extra(spec)
    return spec


def expected_table(spec, page_first_rows):
    dfs, body = spec["df"], spec["body"]
    disp = E.displayed_columns(dfs, body)
    gb = body["group_by"]
    names = [c["name"] for c in dfs["cols"]]
    n = len(dfs["cols"][0]["values"])
    gidx = [names.index(g) for g in gb]
    out = []
    for r in range(n):
        row = []
        for j in disp:
            v = dfs["cols"][j]["values"][r]
            if j in gidx and r > 0 and r not in page_first_rows:
                lvl = gidx.index(j)
                key = tuple(dfs["cols"][g]["values"][r] for g in gidx[:lvl + 1])
                prev = tuple(dfs["cols"][g]["values"][r - 1] for g in gidx[:lvl + 1])
                row.append("" if key == prev else E.display(v))
            else:
                row.append(E.display(v))
        out.append(row)
    return out


def check_spec(ctx, spec):
    case = strip_meta(spec)
    dfs, body = spec["df"], spec["body"]
    names = [c["name"] for c in dfs["cols"]]
    gb = body["group_by"]
    keyrows = list(zip(*[dfs["cols"][names.index(g)]["values"] for g in gb]))
    n = len(keyrows)
    contiguous = E.prefix_contiguous(keyrows)
    o = H.build_and_encode(spec)
    if o.stage == "build":
        ctx.count("rejected_at_construction")
        return
    repeated = any(keyrows[i] == keyrows[i - 1] for i in range(1, n))
    if not contiguous and any(v == "nan" for k in keyrows for v in k):
        # whether a NaN key that comes back is "an equal key" the statement leaves open (NaN is not equal to
        # itself): if every run of NaN counts as a group of its own and the order is contiguous then, the
        # document may be refused or rendered
        runs = [tuple(f"nan#{i}" if v == "nan" else v for v in k) for i, k in enumerate(keyrows)]
        for i in range(1, n):
            runs[i] = tuple(runs[i - 1][l] if keyrows[i][l] == "nan" and keyrows[i - 1][:l + 1] == keyrows[i][:l + 1]
                            else runs[i][l] for l in range(len(keyrows[i])))
        if E.prefix_contiguous(runs):
            ctx.count("recurring_nan_keys_accepted_either_way")
            if o.stage == "encode" and isinstance(o.exc, ValueError):
                return
            contiguous = True
    if not contiguous:
        ctx.count("noncontiguous_cases")
        ctx.case(case, n >= 2)
        if o.stage == "encode" and isinstance(o.exc, ValueError):
            ctx.count("noncontiguous_refused")
        elif o.stage == "encode":
            info = H.exc_info(o.exc)
            ctx.violation(f"non-contiguous group_by keys raised {info['exc']} instead of ValueError", case, info)
        else:
            ctx.violation("non-contiguous group_by keys were rendered instead of rejected", case,
                          {"keys": [list(k) for k in keyrows]})
        return
    if o.stage == "encode":
        ctx.case(case, True)
        info = H.exc_info(o.exc)
        ctx.violation(f"contiguous group_by keys raised {info['exc']}: {info['msg'][:80]}", case,
                      dict(info, keys=[list(k) for k in keyrows]))
        return
    doc = R.parse(o.out)
    ctx.count("docs_parsed")
    got_rows, unk = E.observed_data_rows(doc)
    ctx.case(case, n >= 2 and (len(doc.pages) >= 2 or repeated))
    ctx.sample({"keys": [list(k) for k in keyrows][:12], "nrow": spec.get("page", {}).get("nrow"),
                "pages": len(doc.pages)}, limit=3)
    if unk:
        ctx.violation(f"unclassifiable table row {unk[0][1]!r}", case, {"unclassifiable": unk[:3]})
    # page-first rows as observed (row index from the key tag)
    firsts = set()
    seen_pages = set()
    order = []
    for pi, texts in got_rows:
        k = None
        for t in texts:
            m = E.TAG_DATA.fullmatch(t)
            if m:
                k = int(m.group(1))
        order.append(k)
        if pi not in seen_pages:
            seen_pages.add(pi)
            firsts.add(k)
    if order != list(range(n)):
        ctx.violation("data rows lost/reordered under group_by", case, {"order": order, "n": n})
        return
    exp = expected_table(spec, firsts)
    got = [t for _, t in got_rows]
    disp = E.displayed_columns(dfs, body)
    gidx = [names.index(g) for g in gb]
    ngb = sum(1 for j in disp if j in gidx)
    ctx.count("groupby_cells_checked", n * ngb)
    ctx.count("blank_cells_expected", sum(1 for r in range(n) for c, j in enumerate(disp)
                                          if j in gidx and exp[r][c] == "" and
                                          dfs["cols"][j]["values"][r] is not None))
    ctx.count("page_start_rows_checked", len(firsts - {0}))
    if len(doc.pages) >= 2:
        ctx.count("multi_page_docs")
    if got != exp:
        d = E.first_diff(exp, got)
        r = d[0]
        ctx.violation(f"group_by rendering differs at row {r}: expected {d[1]!r}, got {d[2]!r}", case,
                      {"row": r, "expected": d[1], "got": d[2], "keys": [list(k) for k in keyrows],
                       "page_first_rows": sorted(firsts), "is_page_first": r in firsts})


def check_multi(ctx, rng, specs):
    """the same rule section by section in a multi-section document (every section has its own group_by)"""
    import copy
    secs, base = [], 0
    for sp in specs:
        sp = copy.deepcopy(sp)
        n = len(sp["df"]["cols"][0]["values"])
        for c in sp["df"]["cols"]:
            if c["values"] and isinstance(c["values"][0], str) and E.TAG_DATA.fullmatch(c["values"][0]):
                j = E.TAG_DATA.fullmatch(c["values"][0]).group(2)
                c["values"] = [f"d{base + r}c{j}" for r in range(n)]
        secs.append({"df": sp["df"], "body": {"group_by": sp["body"]["group_by"]}, "colheader": "none",
                     "_n": n, "_base": base})
        base += n
    spec = {"kind": "multi", "sections": secs, "multi_header": "nested", "title": None,
            "page": {"nrow": rng.choice([3, 4, 6, 9, 40])}}
    case = strip_meta(spec)
    for sec in secs:
        names = [c["name"] for c in sec["df"]["cols"]]
        keyrows = list(zip(*[sec["df"]["cols"][names.index(g)]["values"] for g in sec["body"]["group_by"]]))
        if not E.prefix_contiguous(keyrows):
            return            # refusal of non-contiguous keys is judged on single tables
    o = H.build_and_encode(spec)
    if o.stage == "build":
        ctx.count("rejected_at_construction")
        return
    ctx.count("multi_section_docs")
    ctx.case(case, True)
    if o.stage == "encode":
        info = H.exc_info(o.exc)
        ctx.violation(f"multi-section: contiguous group_by keys raised {info['exc']}: {info['msg'][:80]}", case, info)
        return
    doc = R.parse(o.out)
    got_rows, unk = E.observed_data_rows(doc)
    rows = {}
    firsts = set()
    seen_pages = set()
    for pi, texts in got_rows:
        k = next((int(E.TAG_DATA.fullmatch(t).group(1)) for t in texts if E.TAG_DATA.fullmatch(t)), None)
        rows[k] = texts
        if pi not in seen_pages:
            seen_pages.add(pi)
            firsts.add(k)
    for sec in secs:
        n, b = sec["_n"], sec["_base"]
        sub = {"df": sec["df"], "body": sec["body"]}
        exp = expected_table(sub, {f - b for f in firsts if b <= f < b + n})
        got = [rows.get(b + r) for r in range(n)]
        ctx.count("groupby_cells_checked", n * len(sec["body"]["group_by"]))
        if got != exp:
            r = next(i for i in range(n) if got[i] != exp[i])
            ctx.violation(f"multi-section: group_by rendering of section row {r} differs: expected {exp[r]!r}, got "
                          f"{got[r]!r}", case, {"row": r, "section_base": b, "page_first_rows": sorted(firsts)})
            return


def random_spec(rng):
    levels = rng.choice([1, 1, 2, 2, 3])
    n = rng.choice([rng.randint(1, 12), rng.randint(8, 60)])
    intkeys = rng.random() < 0.4
    # numeric / boolean keys include the falsy values 0, 0.0 and False
    kind = rng.choice(["int", "float", "bool", "floatx"]) if intkeys else "str"
    # ("floatx": Float keys with NaN - which is not equal to itself -, the infinities and -0.0, next to nulls; kept
    # as the text Python prints for them)
    pool = {"int": [[0, 1, 2, 3, None], [0, 10, 20, None]], "float": [[0.0, 1.5, 2.0, None], [0.0, 2.5, None]],
            "bool": [[False, True, None], [False, True, None]],
            "floatx": [["nan", "-0.0", "1.5", None, None], ["nan", "inf", None]],
            "str": [["a", "b", "c", None], ["x", "y", None]]}[kind]
    # contiguous hierarchical keys, possibly with nulls as group values
    keys = G.gen_group_keys(rng, n, levels, maxruns=rng.choice([2, 3, 5]), reuse_inner=True)
    ren: dict = {}
    cols = [[] for _ in range(levels)]
    for k in keys:
        for lvl in range(levels):
            parent = k[:lvl]
            used = ren.setdefault(parent, {})
            if k[lvl] not in used:
                extra = {"int": [7, 8, 9], "float": [7.25, 8.5], "bool": [], "str": ["d", "e", "f"],
                         "floatx": ["-inf", "2.5", "1e-07"]}[kind]
                choices = [v for v in pool[min(lvl, 1)] + extra if not any(v is u or (v == u and type(v) is type(u))
                                                                         for u in used.values())]
                if choices:
                    used[k[lvl]] = rng.choice(choices)
                elif kind == "bool":
                    used[k[lvl]] = rng.choice([False, True])      # may make the keys non-contiguous: fine
                else:
                    used[k[lvl]] = (len(used) + 100) if kind == "int" else (len(used) + 100.5) if kind == "float" \
                        else f"{len(used) + 100}.5" if kind == "floatx" else f"z{len(used)}"
            cols[lvl].append(used[k[lvl]])
    if rng.random() < 0.25 and n >= 3:
        # scramble -> usually non-contiguous
        i, j = rng.sample(range(n), 2)
        for c in cols:
            c[i], c[j] = c[j], c[i]

    def extra(spec):
        r = rng.random()
        nn = len(spec["df"]["cols"][0]["values"])
        j = len(spec["df"]["cols"])
        if r < 0.25 and nn:
            runs = G.split_runs(rng, nn, 3)
            vals = [f"G0v{k}" for k, ln in enumerate(runs) for _ in range(ln)]
            spec["df"]["cols"].append({"name": f"N{j}", "dtype": "str", "values": vals})
            spec["body"]["page_by"] = [f"N{j}"]
            if rng.random() < 0.4:
                spec["body"]["new_page"] = True
            if rng.random() < 0.3:
                # the page_by column is ALSO the outermost group_by level (hidden when shown as spanning rows,
                # but still part of the hierarchical key)
                spec["body"]["group_by"] = [f"N{j}"] + spec["body"]["group_by"]
        elif r < 0.4 and nn:
            runs = G.split_runs(rng, nn, 3)
            vals = [f"SB0x{k}" for k, ln in enumerate(runs) for _ in range(ln)]
            spec["df"]["cols"].append({"name": f"N{j}", "dtype": "str", "values": vals})
            spec["body"]["subline_by"] = [f"N{j}"]
        if rng.random() < 0.3:
            spec["footnote"] = {"text": "FN0"}
        if rng.random() < 0.3:
            spec["title"] = {"text": "TT0"}
        if rng.random() < 0.25:
            # column headers on the first page only: the group context is still restored on every page
            spec["body"]["pageby_header"] = False
            spec["colheader"] = rng.choice(["default", "default", "none"])
    spec = make_spec(rng, cols, rng.choice([2, 3, 4, 5, 7, 10, 40]), extra)
    if kind == "floatx":
        for c in spec["df"]["cols"]:
            if c["name"] in [f"N{j}" for j in range(levels)] and c["dtype"] != "null":
                c["dtype"] = "floatx"
    return spec


def run_shard(desc, ctx):
    rng = random.Random(desc["seed"])
    if desc["kind"] == "enum":
        cases = enumerate_cases(desc["tier"])
        for keycols, nrow in cases[desc["lo"]::desc["step"]]:
            ctx.count("enumerated_cases")
            ctx.count(f"enumerated_levels_{len(keycols)}")
            check_spec(ctx, make_spec(rng, keycols, nrow))
    else:
        for _ in range(desc["n"]):
            check_spec(ctx, random_spec(rng))
        for _ in range(max(10, desc["n"] // 8)):
            parts = []
            while len(parts) < 2:
                sp = random_spec(rng)
                if not sp["body"].get("page_by") and not sp["body"].get("subline_by") and \
                        len(sp["df"]["cols"][0]["values"]) <= 20:
                    parts.append(sp)
            check_multi(ctx, rng, parts)


def replay(data, ctx):
    if data["case"].get("kind") == "multi":
        secs = [{"df": s_["df"], "body": s_["body"]} for s_ in data["case"]["sections"]]
        for k in range(4):
            check_multi(ctx, random.Random(k), secs)
    else:
        check_spec(ctx, data["case"])
