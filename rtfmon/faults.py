"""Failpoint injector (sys.monitoring) and file-system observation for C18."""
from __future__ import annotations

import hashlib
import os
import sys

mon = sys.monitoring


class InjectedFault(Exception):
    pass


class Injector:
    """Raises InjectedFault from the PY_START callback of the k-th library
    function entry (code objects whose file lies under `root`).  Raising from
    the callback propagates into the library as if the callee raised on entry."""

    def __init__(self, root: str):
        self.root = root
        self.tool = mon.PROFILER_ID
        mon.use_tool_id(self.tool, "rtfmon-faults")
        mon.register_callback(self.tool, mon.events.PY_START, self._cb)
        mon.set_events(self.tool, mon.events.PY_START)
        self.armed = False
        self.n = 0
        self.k = None
        self.where = None
        self.sites: list | None = None

    def close(self):
        mon.set_events(self.tool, 0)
        mon.register_callback(self.tool, mon.events.PY_START, None)
        mon.free_tool_id(self.tool)

    def arm(self, k=None, record=False):
        self.n = 0
        self.k = k
        self.where = None
        self.sites = [] if record else None
        self.armed = True

    def disarm(self):
        self.armed = False

    def _cb(self, code, offset):
        if not code.co_filename.startswith(self.root):
            return mon.DISABLE
        if not self.armed:
            return None
        self.n += 1
        if self.sites is not None:
            self.sites.append((os.path.relpath(code.co_filename, self.root), code.co_name))
        if self.n == self.k:
            self.where = (os.path.relpath(code.co_filename, self.root), code.co_name)
            raise InjectedFault(f"injected at library call boundary {self.n} ({self.where[0]}:{self.where[1]})")
        return None


def snapshot(root: str) -> dict:
    """relative path -> ('d',) | ('f', size, sha256)"""
    out = {}
    if not os.path.isdir(root):
        return out
    for base, dirs, files in os.walk(root):
        rel = os.path.relpath(base, root)
        for d in dirs:
            out[os.path.normpath(os.path.join(rel, d))] = ("d",)
        for f in files:
            p = os.path.join(base, f)
            try:
                data = open(p, "rb").read()
                out[os.path.normpath(os.path.join(rel, f))] = ("f", len(data), hashlib.sha256(data).hexdigest())
            except OSError:
                out[os.path.normpath(os.path.join(rel, f))] = ("f", -1, "?")
    return out


class AuditTrace:
    """Process-wide audit hook (cannot be removed, so it is installed once and
    only records while armed)."""
    _installed = None

    def __init__(self):
        self.armed = False
        self.events: list = []
        self.encode_done = False

    @classmethod
    def get(cls):
        if cls._installed is None:
            t = cls()
            sys.addaudithook(t._hook)
            cls._installed = t
        return cls._installed

    def _hook(self, event, args):
        if not self.armed:
            return
        if event == "open":
            path, mode, flags = args
            if isinstance(path, (str, bytes, os.PathLike)):
                self.events.append(("open", os.fspath(path), mode, flags, self.encode_done))
        elif event in ("os.mkdir", "os.rename", "os.remove", "os.rmdir", "shutil.move", "shutil.rmtree",
                       "tempfile.mkdtemp", "shutil.copyfile"):
            self.events.append((event, tuple(str(a) for a in args), self.encode_done))

    def start(self):
        self.events = []
        self.encode_done = False
        self.armed = True

    def stop(self):
        self.armed = False
        return self.events
