import json,sys
pid, wt, variant = sys.argv[1], sys.argv[2], (sys.argv[3] if len(sys.argv)>3 else "")
for l in open('/verif/properties.jsonl'):
    d=json.loads(l)
    if d['id']==pid: break
prop = {k:d[k] for k in ('id','title','statement','quantifier','why_tests_cant','anchors')}
print(f"""You are helping to evaluate a verification effort by playing the adversary. You work ONLY inside the git worktree {wt}, a checkout of the open-source pure-Python library `rtflite` (composes RTF documents from polars DataFrames). Do not read, list or modify anything under /verif or /repo (other than your worktree, which is registered there); do not use any network.

Here is a semantic property of the library that is supposed to hold (JSON):

{json.dumps(prop, indent=1)}

Your task: produce a SMALL, realistic change to the library source (files under {wt}/src/rtflite only; do not touch tests) that BREAKS this property, while the code still imports and the existing test suite still passes unchanged. {variant}
Requirements for the change:
- It should look like a plausible maintenance edit / refactoring slip / optimisation / off-by-one, not sabotage, and be at most ~15 changed lines.
- It must need something SPECIFIC to manifest: a particular input shape or value, a multi-step sequence of operations, a fault at a particular point, a particular interleaving, or two cooperating sites that each look fine alone. It must NOT be something that any ordinary use exposes at once (the existing tests must keep passing).
- Run the existing test suite to confirm: `cd {wt} && PYTHONPATH={wt}/src /venv/bin/python -m pytest -q -p no:cacheprovider -x 2>&1 | tail -3` (expect 423 passed). IMPORTANT: always set PYTHONPATH={wt}/src, otherwise Python imports the library from another location and your change is not exercised.

Deliverables (create directory {wt}/OUT and put there):
1. `patch.diff` - output of `git -C {wt} diff -- src` (must apply with `git apply` to a clean checkout of the same commit).
2. `demo.py` - a small self-contained Python program (run as `PYTHONPATH=<checkout>/src /venv/bin/python demo.py`) that exits 0 on the unchanged library and exits non-zero (assert failure) on the changed library, demonstrating the property violation through the PUBLIC behaviour the property talks about (the RTF string / file / exception etc.), not by inspecting the source. Verify both: with your change applied it fails; on the clean tree it passes - toggle with `git diff -- src > /tmp/mychange.diff; git apply -R /tmp/mychange.diff; ...; git apply /tmp/mychange.diff` and NEVER use `git stash` (the stash is shared between worktrees and other agents use it); leave the worktree with your change applied.
3. `notes.json` - {{"property": "{pid}", "summary": "...what was changed...", "needs": "...what specific input / sequence / fault / interleaving makes it manifest...", "why_tests_pass": "..."}}

When done, reply with a 5-line summary: files changed, what it needs to manifest, test-suite result, demo result with and without the change.""")
