"""C03 - no page exceeds the nrow row budget.

Oracle on the parsed output: per page, column-header rows + heading rows
(page_by spanning rows, subline heading paragraph) + data rows (each weighted
by an independent LOWER bound on its wrapped lines: Pillow metrics of the
cell's own font and size over its own column width) + table footnote/source
rows must not exceed nrow, unless the page holds a single data row.
Invariant at a hook: PageBreakCalculator._assign_pages never fills a page
beyond its own available_rows by its own row heights.
"""
from __future__ import annotations

import math
import random

from .. import expect as E
from .. import gen as G
from .. import harness as H
from .. import reader as R
from ..spec import strip_meta

PID = "C03"
LEVEL = "exploration"
# a few fixed documents are encoded before and after every shard's workload (harness.Sentinels)
SENTINELS = True
RULE = ("single-section tables with 0..60 rows whose cells are sized to need 1..6 lines at their own font (1..10) and "
        "size (6..24, scalar / per-column / matrix), nrow 1..50, column headers explicit / default / two-row / none, "
        "footnote and source absent / table / paragraph at any placement, strategies plain / page_by (1-3 levels, "
        "new_page on/off) / subline_by with groups that do and do not straddle page ends. non-trivial = >=2 pages; "
        "distinct by spec hash")
ASSUMPTIONS = ["data-row weight = max over cells of ceil(text width / column width) with Pillow metrics of the bundled "
               "metric-compatible font: a lower bound on wrapped lines (cell padding and word wrapping only add lines), "
               "so the oracle never over-counts",
               "a page holding a single data row is exempt (the statement's exception)"]
DECIDING = ["docs_parsed", "pages_weighed", "multi_page_docs", "assign_pages_hook_calls", "wrapped_rows_weighed"]
FLOOR = {"quick": 1500, "thorough": 25000}

FONT_FILE = {1: "liberation/LiberationSerif-Regular.ttf", 2: "liberation/LiberationSerif-Regular.ttf",
             3: "liberation/LiberationSans-Regular.ttf", 4: "liberation/LiberationSans-Regular.ttf",
             5: "liberation/LiberationSans-Regular.ttf", 6: "cros/Carlito-Regular.ttf",
             7: "cros/Gelasio-Regular.ttf", 8: "cros/Caladea-Regular.ttf",
             9: "liberation/LiberationMono-Regular.ttf", 10: "liberation/LiberationSerif-Regular.ttf"}
_FONTS: dict = {}


def pil_width_in(text, font, size):
    """width in inches measured directly with Pillow on the bundled font file"""
    import importlib.resources as res
    from PIL import ImageFont
    import rtflite.fonts
    key = (font, size)
    f = _FONTS.get(key)
    if f is None:
        path = str(res.files(rtflite.fonts) / FONT_FILE[font])
        f = ImageFont.truetype(path, size=size)
        _FONTS[key] = f
    return f.getlength(text) / 72.0


def plan(tier, seed):
    per = 200 if tier == "quick" else 2200
    return [{"n": per} for _ in range(16)]


def classify(v):
    return (v.get("detail") or {}).get("mech")


class AssignHook:
    def __init__(self):
        self.calls = 0
        self.bad = []

    def install(self):
        from rtflite.pagination.core import PageBreakCalculator
        self.cls = PageBreakCalculator
        self.orig = PageBreakCalculator._assign_pages
        hook = self

        def wrapped(self_c, meta_df, additional_rows_per_page=0, new_page=False):
            res = hook.orig(self_c, meta_df, additional_rows_per_page, new_page)
            hook.calls += 1
            try:
                if res.height:
                    avail = max(1, self_c.pagination.nrow - additional_rows_per_page)
                    pages = {}
                    for row in res.to_dicts():
                        cur = pages.setdefault(row["page"], [])
                        if not cur and "page_top_header_rows" in row:
                            # first row of a page: all page_by levels are repeated above it
                            cur.append(row["data_rows"] + row["page_top_header_rows"])
                        else:
                            cur.append(row["total_rows"])
                    for p, hs in pages.items():
                        if sum(hs) > avail and len(hs) > 1 and len(hook.bad) < 3:
                            hook.bad.append({"page": p, "heights": hs, "available_rows": avail})
            except Exception as e:  # noqa
                hook.bad.append({"hook_error": repr(e)})
            return res
        PageBreakCalculator._assign_pages = wrapped
        return self

    def uninstall(self):
        self.cls._assign_pages = self.orig


WORDS = ["alpha", "beta", "gamma", "delta", "mg", "kg", "dose", "visit", "subject", "placebo", "treatment", "x", "ab",
         "baseline", "change", "week", "CI", "n", "mean", "SD", "median", "range"]


def text_for_lines(rng, lines, colw, font, size):
    """text whose measured width is about (lines - 0.5) column widths"""
    if lines <= 1:
        return " ".join(rng.choice(WORDS) for _ in range(rng.randint(1, 2)))[:max(1, int(colw * 8))]
    # mostly mid-band, sometimes just past a multiple of the column width (a few per cent of measuring
    # error then loses a whole line)
    target = (lines - 0.5) * colw if rng.random() < 0.6 else (lines - 1) * colw * 1.015
    t = rng.choice(WORDS)
    while pil_width_in(t, font, size) < target:
        t += " " + rng.choice(WORDS)
    return t


def gen_tight(rng):
    """tables that fill their page(s) EXACTLY (+-1 row): one-line rows, row count chosen from the budget the
    statement implies (nrow minus header / footnote / source rows), every placement combination"""
    nrow = rng.randint(3, 16)
    hdr = rng.choice(["explicit", "explicit", "tworow", "none"])
    spec = G.gen_table_spec(rng, nrows=1, ncols=(1, 3), strategy=rng.choice(["plain", "plain", "page_by"]),
                            attrs_p=0.0, rich=0.0, nrow=nrow, header=hdr, page={}, col_rel_width=False,
                            title=False, subline=False, page_hf=False, footnote=rng.random() < 0.7,
                            source=rng.random() < 0.7, maxruns=1)
    page = spec.setdefault("page", {})
    page["nrow"] = nrow
    for k in ("page_footnote", "page_source"):
        page[k] = rng.choice(G.PLACES)
    fixed = {"explicit": 1, "tworow": 2, "none": 0}[hdr]
    for k in ("footnote", "source"):
        if isinstance(spec.get(k), dict):
            spec[k]["as_table"] = rng.random() < 0.75
            fixed += 1
    if spec["body"].get("page_by"):
        fixed += len(spec["body"]["page_by"])
    pages = rng.choice([1, 1, 2, 3])
    per = max(1, nrow - fixed)
    n = max(1, per * pages + rng.choice([-1, 0, 0, 1]))
    # rebuild the frame with n one-line rows (single group)
    cols = spec["df"]["cols"]
    keyj = spec["_meta"]["key"]
    for j, c in enumerate(cols):
        if j == keyj:
            c["values"] = [f"d{r}c{j}" for r in range(n)]
        elif c["name"] in (spec["body"].get("page_by") or []):
            c["values"] = [c["values"][0]] * n
        else:
            c["dtype"] = "str"
            c["values"] = ["x"] * n
    spec["_meta"]["nrows"] = n
    return spec


def gen_spec(rng):
    if rng.random() < 0.2:
        return gen_tight(rng)
    strategy = rng.choice(["plain", "plain", "plain", "page_by", "page_by_new", "page_by_new_first", "subline",
                           "nested", "subline_page_by"])
    nrow = rng.choice([rng.randint(1, 50), rng.randint(4, 14), rng.randint(6, 20)])
    n = rng.choice([rng.randint(0, 12), rng.randint(10, 60)])
    wide = rng.random() < 0.15
    spec = G.gen_table_spec(rng, nrows=n, ncols=(9, 14) if wide else (1, 5), strategy=strategy, attrs_p=0.0, rich=0.0,
                            nrow=nrow,
                            header=rng.choice(["default", "default", "explicit", "tworow", "none"]), page={},
                            col_rel_width=wide or rng.random() < 0.4, maxruns=rng.choice([2, 4, 8]),
                            title=rng.random() < 0.3,
                            subline=False, page_hf=False)
    page = spec.setdefault("page", {})
    page["nrow"] = nrow
    for k in ("page_footnote", "page_source", "page_title"):
        if rng.random() < 0.5:
            page[k] = rng.choice(G.PLACES)
    for k in ("footnote", "source"):
        if isinstance(spec.get(k), dict):
            spec[k]["as_table"] = rng.random() < 0.55
    body = spec["body"]
    cols = spec["df"]["cols"]
    nc = len(cols)
    n = len(cols[0]["values"])
    big = rng.random() < 0.45
    if big:
        shape = rng.choice(["scalar", "row", "matrix"])
        body["text_font_size"] = G.shaped(rng, "text_font_size", n, nc, shape=shape, half_points=True)
        if rng.random() < 0.6:
            body["text_font"] = G.shaped(rng, "text_font", n, nc, shape=rng.choice(["scalar", "row", "matrix"]))
    # wrapping text in the non-grouping, non-key columns
    disp = E.displayed_columns(spec["df"], body)
    total = page.get("col_width", 6.25)
    w = E.rel_widths(spec["df"], body)
    dw = [w[j] for j in disp]
    colw = {j: total * w[j] / sum(dw) for j in disp}
    grouping = set(body.get("page_by") or []) | set(body.get("subline_by") or [])
    keyj = spec["_meta"]["key"]
    if body.get("page_by") and body.get("subline_by") and rng.random() < 0.4:
        # the (outer) page_by value does not change where the subline_by value does: one value for the whole
        # table, or runs of its own
        c = next(c for c in cols if c["name"] == body["page_by"][0])
        runs2 = G.split_runs(rng, n, rng.choice([1, 1, 2, 3]))
        c["values"] = [f"G0v{k}" for k, ln in enumerate(runs2) for _ in range(ln)]
    if body.get("page_by") and rng.random() < 0.12:
        # a group value spelled ALMOST like the divider is an ordinary value: its heading row is rendered and
        # has to be budgeted
        pick = rng.choice(body["page_by"])
        c = next(c for c in cols if c["name"] == pick)
        labels = sorted({v for v in c["values"] if isinstance(v, str) and v.strip() and v != E.DIVIDER})
        if labels:
            tgt = rng.choice(labels)
            alt = rng.choice(["----- ", " -----", "------", "----"])
            c["values"] = [alt if v == tgt else v for v in c["values"]]
    elif body.get("page_by") and rng.random() < 0.12:
        # a page_by column of Float dtype with NaN (which is not equal to itself), the infinities and -0.0
        pick = rng.choice(body["page_by"])
        c = next(c for c in cols if c["name"] == pick)
        if c["dtype"] == "str" and E.DIVIDER not in c["values"] and "" not in c["values"]:
            G.float_keys(rng, c)
    if wide:
        # many columns of very different widths holding the SAME or nearly the same text in one row (the text,
        # and the text behind one more digit): what a cell needs depends on its column, not on its text alone
        ctx_cols = [j for j in disp if cols[j]["name"] not in grouping and j != keyj]
        for j in ctx_cols:
            cols[j]["dtype"] = "str"
            cols[j]["values"] = [""] * n
        for r in range(n):
            if not ctx_cols or rng.random() < 0.4:
                continue
            jn = min(ctx_cols, key=lambda j: colw[j])
            base = text_for_lines(rng, rng.randint(2, 5), colw[jn], E.broadcast(body.get("text_font", 1), r, jn),
                                  E.broadcast(body.get("text_font_size", 9), r, jn))
            for j in ctx_cols:
                q = rng.random()
                cols[j]["values"][r] = base if q < 0.4 else rng.choice("0123456789") + base if q < 0.7 else ""
            # ... in particular where the position of one column is a prefix of another's (1 and 12): a key
            # built by joining position and text without a separator cannot tell ("1","2X") from ("12","X")
            pairs = [(a, b) for a in range(len(disp)) for b in range(10, len(disp))
                     if str(b).startswith(str(a)) and a != b and disp[a] in ctx_cols and disp[b] in ctx_cols]
            if pairs and rng.random() < 0.5:
                a, b = rng.choice(pairs)
                cols[disp[a]]["values"][r] = str(b)[len(str(a)):] + base
                cols[disp[b]]["values"][r] = base
    elif rng.random() < 0.6:
        for j in disp:
            if cols[j]["name"] in grouping or j == keyj or cols[j]["dtype"] != "str":
                continue
            for r in range(n):
                if rng.random() < 0.3:
                    font = E.broadcast(body.get("text_font", 1), r, j)
                    size = E.broadcast(body.get("text_font_size", 9), r, j)
                    cols[j]["values"][r] = text_for_lines(rng, rng.randint(2, 6), colw[j], font, size)
    return spec


def row_weight(spec, colw, disp, r):
    body = spec["body"]
    cols = spec["df"]["cols"]
    best = 1
    for j in disp:
        txt = E.display(cols[j]["values"][r])
        if not txt:
            continue
        font = E.broadcast(body.get("text_font", 1), r, j)
        size = E.broadcast(body.get("text_font_size", 9), r, j)
        lines = math.ceil(pil_width_in(txt, font, size) / colw[j] - 1e-9)
        best = max(best, lines)
    return best


def explain(spec, over, page_info):
    """known mechanisms, each explaining the overage completely (see known_findings.json)"""
    return None


def check_spec(ctx, spec, hook):
    case = strip_meta(spec)
    o = H.build_and_encode(spec)
    if o.stage == "build":
        ctx.count("rejected_at_construction")
        return
    if o.stage == "encode":
        ctx.case(case, True)
        info = H.exc_info(o.exc)
        ctx.violation(f"rtf_encode raised {info['exc']} @ {info['where']}: {info['msg'][:60]}", case, info)
        return
    doc = R.parse(o.out)
    ctx.count("docs_parsed")
    body = spec["body"]
    page = spec.get("page", {})
    nrow = page["nrow"]
    n = len(doc.pages)
    ctx.case(case, n >= 2)
    if n >= 2:
        ctx.count("multi_page_docs")
    disp = E.displayed_columns(spec["df"], body)
    nc = len(spec["df"]["cols"])
    total = page.get("col_width", 6.25)
    w = E.rel_widths(spec["df"], body)
    colw = {j: total * w[j] / sum(w[k] for k in disp) for j in disp}
    hdr = spec.get("colheader", "default")
    levels = len(body.get("page_by") or [])
    worst = None
    extra = E.extra_roles(spec)
    for p, pg in enumerate(doc.pages):
        roles = E.page_roles(pg, extra)
        if any(r is None for r, _ in roles):
            ctx.violation(f"unclassifiable block on page {p + 1}", case, {"page": p})
            return
        hdr_rows = sum(1 for r, _ in roles if r in ("header", "header_auto"))
        auto_rows = sum(1 for r, _ in roles if r == "header_auto")
        heading = sum(1 for r, _ in roles if r == "heading")
        subl = sum(1 for r, _ in roles if r == "subline_by")
        fs = sum(1 for r, _ in roles if r in ("footnote_row", "source_row"))
        drows = [E.data_key(b)[0] for r, b in roles if r == "data"]
        weights = [row_weight(spec, colw, disp, r) for r in drows]
        ctx.count("pages_weighed")
        ctx.count("wrapped_rows_weighed", sum(1 for x in weights if x > 1))
        used = hdr_rows + heading + subl + fs + sum(weights)
        if used > nrow and len(drows) > 1:
            over = used - nrow
            info = {"page": p, "pages": n, "nrow": nrow, "used": used, "over": over, "header_rows": hdr_rows,
                    "auto_header_rows": auto_rows, "heading_rows": heading, "subline_heading": subl,
                    "footnote_source_rows": fs, "data_rows": len(drows), "data_lines": sum(weights),
                    "levels": levels}
            info["mech"] = explain_over(spec, info)
            # report an unexplained page in preference to one a known finding explains
            if worst is None or (worst["mech"] is not None and info["mech"] is None) or \
                    ((worst["mech"] is None) == (info["mech"] is None) and over > worst["over"]):
                worst = info
    ctx.sample({"pages": n, "nrow": nrow, "strategy": {k: body.get(k) for k in ("page_by", "subline_by", "new_page")},
                "font_size": body.get("text_font_size") if not isinstance(body.get("text_font_size"), list) else "shaped"},
               limit=3)
    if worst is not None:
        mech = worst["mech"]
        ctx.violation(f"page {worst['page'] + 1}/{n} uses {worst['used']} rows of nrow={nrow} "
                      f"(headers {worst['header_rows']}, headings {worst['heading_rows']}+{worst['subline_heading']}, "
                      f"data lines {worst['data_lines']} in {worst['data_rows']} rows, footnote/source rows "
                      f"{worst['footnote_source_rows']})", case, dict(worst, mech=mech))
    if hook.bad:
        ctx.violation("_assign_pages filled a page beyond its own available_rows: " + str(hook.bad[0]), case,
                      {"hook": hook.bad[:2]})
        hook.bad.clear()


def explain_over(spec, w):
    """Known finding C03-auto-header-not-reserved: the page is over budget by no more than the number of
    auto-named (default) column-header rows rendered on it - nothing else is unexplained."""
    if w["auto_header_rows"] >= 1 and w["over"] <= w["auto_header_rows"]:
        return "auto_header_not_reserved"
    return None


def run_shard(desc, ctx):
    rng = random.Random(desc["seed"])
    hook = AssignHook().install()
    try:
        for _ in range(desc["n"]):
            check_spec(ctx, G.maybe_prior(rng, gen_spec(rng)), hook)
    finally:
        ctx.count("assign_pages_hook_calls", hook.calls)
        hook.uninstall()


def replay(data, ctx):
    hook = AssignHook().install()
    spec = data["case"]
    spec.setdefault("_meta", {"key": None})
    check_spec(ctx, spec, hook)
    hook.uninstall()
