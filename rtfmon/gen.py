"""Seeded generators of document specs (see spec.py for the spec language).

Sentinel conventions (letters+digits only, prefix-free) so that the role of
every block read back from the output needs no guessing:

  d<row>c<col>   key-column data cell (row = global row index, col = original column)
  N<j>           column names          H<k>c<j>   explicit column-header texts
  G<lvl>v<n>     page_by values        SB<n>      subline_by values
  TT<n> title    SL<n> subline         FN<n> footnote   SR<n> source
  PH<n>/PF<n>    page header / footer
"""
from __future__ import annotations

import random
import struct

LETTERS = "abcdefghijklmnopqrstuvwxyzABCDEFGHIJKLMNOPQRSTUVWXYZ"
DIGITS = "0123456789"
# no conversion triggers: no \ { } ^ _ and neither '>=' nor '<=' can form (no '=')
SAFE_PUNCT = " .,;:!?()[]+-*/%&#@'\"|~<>"
SAFE = LETTERS + DIGITS + SAFE_PUNCT
# printable ASCII minus the three RTF metacharacters (for text_convert=False)
ASCII_NOMETA = "".join(chr(c) for c in range(0x20, 0x7F) if chr(c) not in "\\{}")

import re as _re
_LOOKS_LIKE_TAG = _re.compile(r"d\d+c\d+|G\d+v\d+|g\d+w\d+|SB\d+x\d+|H\d+c\d+|N\d+")
EXOTIC = [chr(0xE9), chr(0xA0), "e" + chr(0x301), chr(0x3A9), chr(0x4E2D), chr(0x5D0), chr(0x1F600), chr(0xB5) + "g",
          chr(0x2264), chr(0xB1), chr(0x2013), chr(0x201C) + "q" + chr(0x201D), chr(0xDF), chr(0x130)]

COLORS = None
BORDERS = ["single", "double", "thick", "dotted", "dashed", "small-dash", "dash-dotted",
           "dash-dot-dotted", "triple", "wavy", "double-wavy", "striped", "embossed",
           "engraved", "frame", ""]
PLACES = ["first", "last", "all"]


def colors():
    global COLORS
    if COLORS is None:
        from rtflite.dictionary.color_table import name_to_rgb
        COLORS = sorted(name_to_rgb)
    return COLORS


def text(rng, alpha, lo, hi):
    return "".join(rng.choice(alpha) for _ in range(rng.randint(lo, hi)))


def words(rng, n, alpha=LETTERS + DIGITS):
    return " ".join(text(rng, alpha, 1, 8) for _ in range(n))


def safe_cell_text(rng, convert=True, long_p=0.0):
    """text that the conversion pipeline must leave alone"""
    alpha = SAFE if convert else ASCII_NOMETA
    if long_p and rng.random() < long_p:
        return " ".join(text(rng, alpha.replace(" ", ""), 1, 9) for _ in range(rng.randint(8, 40)))
    r = rng.random()
    if r < 0.1:
        return ""
    if r < 0.2:
        return " " * rng.randint(1, 3)
    if r < 0.24:
        # values that are sentinels elsewhere in the library
        return rng.choice(["-----", "None", "null", "nan", "0", "-"])
    if r < 0.30:
        # strings that look like numbers, booleans, missing-value markers or markup
        return rng.choice(["007", "1e5", "1.0", "+5", "1,000", "0x1F", "NaN", "True", "false", "NULL", "N/A", "<NA>",
                           "50%", "a&b", "&amp;", "\"q\"", "it's", "#1", "1/2", "(12.5)", "12 (34.5%)", "<0.001",
                           "a  b", "x;y", "--", "...", "[1]", "*", "~"])
    if r < 0.34:
        # one very long word without a blank
        return text(rng, LETTERS + DIGITS, 30, 90)
    t = text(rng, alpha, 1, 14)
    if _LOOKS_LIKE_TAG.fullmatch(t.strip()):
        t += "~"          # free text must never read like one of the sentinel tags (d3c9, G0v1, H1c2 ...)
    if rng.random() < 0.06:
        # non-ASCII: Latin-1, no-break space, combining mark, Greek, CJK, right-to-left, astral
        t += rng.choice(EXOTIC)
    if rng.random() < 0.25:
        t = " " * rng.randint(1, 3) + t
    if rng.random() < 0.25:
        t = t + " " * rng.randint(1, 3)
    return t


def gen_column(rng, n, dtype=None, convert=True, nullable=None, long_p=0.0):
    dtype = dtype or rng.choice(["str"] * 6 + ["int", "float"] * 3 + ["bool", "date", "int32", "float32", "datetime",
                                                                     "time", "decimal", "floatx", "cat", "enum", "uint8",
                                                                     "null"])
    nullable = rng.random() < 0.3 if nullable is None else nullable
    vals = []
    for _ in range(n):
        if nullable and rng.random() < 0.25:
            vals.append(None)
        elif dtype == "str":
            vals.append(safe_cell_text(rng, convert, long_p))
        elif dtype in ("int", "int32"):
            vals.append(rng.choice([0, 1, -1, rng.randint(-10**6, 10**6), rng.randint(0, 99)]))
        elif dtype == "bool":
            vals.append(rng.random() < 0.5)
        elif dtype == "date":
            vals.append("%04d-%02d-%02d" % (rng.randint(1990, 2030), rng.randint(1, 12), rng.randint(1, 28)))
        elif dtype == "null":
            vals.append(None)
        elif dtype in ("cat", "enum"):
            vals.append(rng.choice(["lo", "mid", "hi", "n/a", "Grade 3"]))
        elif dtype == "uint8":
            vals.append(rng.choice([0, 1, 255, rng.randint(0, 255)]))
        elif dtype == "datetime":
            import datetime
            vals.append(str(datetime.datetime(rng.randint(1990, 2030), rng.randint(1, 12), rng.randint(1, 28),
                                              rng.randint(0, 23), rng.randint(0, 59), rng.randint(0, 59),
                                              rng.choice([0, 0, 500000, 123456]))))
        elif dtype == "time":
            import datetime
            vals.append(str(datetime.time(rng.randint(0, 23), rng.randint(0, 59), rng.randint(0, 59),
                                          rng.choice([0, 0, 250000]))))
        elif dtype == "decimal":
            vals.append("%d.%02d" % (rng.randint(-9999, 9999), rng.randint(0, 99)))
        elif dtype == "floatx":
            vals.append(rng.choice(["nan", "inf", "-inf", "-0.0", "1.5", "1e-07", "1e+16"]))
        elif dtype == "float32":
            vals.append(rng.choice([0.0, 1.5, -2.25, 0.5, 1024.0, float(rng.randint(-5, 5))]))
        else:
            vals.append(rng.choice([0.0, 1.5, -2.25, round(rng.uniform(-1000, 1000), rng.randint(0, 6)),
                                    float(rng.randint(-5, 5)), 1e-7, 1.23e20]))
    return dtype, vals


def retype_keys(rng, cols, names, p=0.3):
    """grouping keys are not always plain strings: give some of the named string columns a categorical
    or enum dtype (same values, same display text)"""
    for c in cols:
        if c["name"] in names and c["dtype"] == "str" and rng.random() < p:
            c["dtype"] = rng.choice(["cat", "enum"])


FLOAT_TEXTS = ["nan", "inf", "-0.0", "1.5", "-inf", "2.0", "1e-07", "-3.25", "1e+22", "0.5"]  # (all different as floats)


def float_keys(rng, col):
    """a grouping column of Float dtype: its distinct labels become floats, among them NaN, the infinities and
    the negative zero (kept in the spec as the text Python prints for them; dtype "floatx")"""
    labels = []
    for v in col["values"]:
        if v is not None and v not in labels:
            labels.append(v)
    if not labels or len(labels) > len(FLOAT_TEXTS) or not all(isinstance(v, str) for v in labels):
        return False
    texts = ["nan"] + rng.sample(FLOAT_TEXTS[1:], len(labels) - 1)
    rng.shuffle(texts)
    m = dict(zip(labels, texts))
    col["dtype"] = "floatx"
    col["values"] = [None if v is None else m[v] for v in col["values"]]
    return True


def split_runs(rng, n, maxruns):
    """split n rows into 1..maxruns contiguous runs (lengths >= 1)"""
    if n <= 0:
        return []
    k = rng.randint(1, max(1, min(maxruns, n)))
    cuts = sorted(rng.sample(range(1, n), k - 1)) if k > 1 else []
    bounds = [0] + cuts + [n]
    return [bounds[i + 1] - bounds[i] for i in range(k)]


def gen_group_keys(rng, n, levels, prefix="G", maxruns=4, reuse_inner=True):
    """hierarchically contiguous key tuples for n rows: list[tuple[str,...]]"""
    out: list[list[str]] = [[] for _ in range(n)]
    counter = [0] * levels

    def fill(lo, hi, lvl):
        if lvl >= levels:
            return
        pos = lo
        local = 0
        for run in split_runs(rng, hi - lo, maxruns):
            if reuse_inner and lvl > 0:
                v = f"{prefix}{lvl}v{local}"
                local += 1
            else:
                v = f"{prefix}{lvl}v{counter[lvl]}"
                counter[lvl] += 1
            for r in range(pos, pos + run):
                out[r].append(v)
            fill(pos, pos + run, lvl + 1)
            pos += run

    fill(0, n, 0)
    return [tuple(x) for x in out]


def gen_df(rng, n, ncols, *, convert=True, group_cols=0, subline_cols=0, groupby_cols=0,
           row_base=0, maxruns=4, key=True, groupby_nulls=False, long_p=0.0, divider_p=0.2, blank_p=0.1):
    """-> (dfspec, meta).  Grouping columns are placed at random positions; one
    designated key column holds the d<row>c<col> tags."""
    total = ncols
    special = group_cols + subline_cols + groupby_cols + (1 if key else 0)
    total = max(total, special)
    positions = list(range(total))
    rng.shuffle(positions)
    take = iter(positions)
    # the hierarchy is the ORDER of the page_by / subline_by / group_by lists, which need not be the
    # order in which the columns stand in the frame
    pg = [next(take) for _ in range(group_cols)]
    sb = [next(take) for _ in range(subline_cols)]
    gb = [next(take) for _ in range(groupby_cols)]
    if rng.random() < 0.5:
        pg, sb, gb = sorted(pg), sorted(sb), sorted(gb)
    keypos = next(take) if key else None
    # subline_by is the outer grouping, page_by nested in it, group_by nested in both
    levels = subline_cols + group_cols + groupby_cols
    keys = gen_group_keys(rng, n, levels, prefix="X", maxruns=maxruns, reuse_inner=False) if levels else []
    # rename values per role; inner levels of a role may reuse labels under different parents
    ren: dict = {}
    seen: dict = {}
    reuse = rng.random() < 0.5

    def val(role, lvl, raw, parent=None):
        k = (role, lvl, raw)
        if k not in ren:
            scope = (role, lvl, parent if (reuse and lvl > 0) else None)
            idx = seen.get(scope, 0)
            seen[scope] = idx + 1
            if role == "sb":
                ren[k] = f"SB{lvl}x{idx}"
            elif role == "pg":
                ren[k] = f"G{lvl}v{idx}"
            else:
                ren[k] = f"g{lvl}w{idx}"
        return ren[k]

    def role_dtype(vs, allow_null=False):
        # grouping keys are not always plain strings: categorical / enum columns, all-null columns
        r = rng.random()
        if allow_null and r < 0.04:
            return "null", [None] * len(vs)
        if r < 0.15:
            return "cat", vs
        if r < 0.30:
            return "enum", vs
        return "str", vs

    conv_of = (lambda j: convert[j % len(convert)]) if isinstance(convert, list) else (lambda j: convert)
    cols = []
    for j in range(total):
        name = f"N{j}"
        if j in sb:
            lvl = sb.index(j)
            cols.append({"name": name, "dtype": "str", "values": [val("sb", lvl, k[lvl], k[lvl - 1] if lvl else None) for k in keys]})
        elif j in pg:
            lvl = pg.index(j)
            cols.append({"name": name, "dtype": "str",
                         "values": [val("pg", lvl, k[subline_cols + lvl], k[subline_cols + lvl - 1] if lvl else None)
                                    for k in keys]})
        elif j in gb:
            lvl = gb.index(j)
            o = subline_cols + group_cols
            vs = [val("gb", lvl, k[o + lvl], k[o + lvl - 1] if lvl else None) for k in keys]
            if vs and rng.random() < 0.3:
                # null is a group value of its own: one label of this level becomes null
                target = rng.choice(sorted(set(vs)))
                vs = [None if v == target else v for v in vs]
            dt, vs = role_dtype(vs, allow_null=True)
            cols.append({"name": name, "dtype": dt, "values": vs})
        elif j == keypos:
            cols.append({"name": name, "dtype": "str",
                         "values": [f"d{row_base + r}c{j}" for r in range(n)]})
        else:
            dt, vals = gen_column(rng, n, convert=conv_of(j), long_p=long_p)
            cols.append({"name": name, "dtype": dt, "values": vals})
    # one whole page_by group may be the '-----' divider (rendered without a heading)
    if pg and n and rng.random() < divider_p:
        col = cols[rng.choice(pg)]
        target = rng.choice(sorted(set(col["values"])))
        col["values"] = ["-----" if v == target else v for v in col["values"]]
    # ... or have a blank value (an empty heading row is rendered for it)
    if pg and n and rng.random() < blank_p:
        col = cols[rng.choice(pg)]
        cands = sorted(set(col["values"]) - {"-----"})
        if cands:
            target = rng.choice(cands)
            blank = rng.choice(["", " "])
            col["values"] = [blank if v == target else v for v in col["values"]]
    for j in pg + sb:
        cols[j]["dtype"], cols[j]["values"] = role_dtype(cols[j]["values"])
    meta = {"key": keypos, "page_by": [f"N{j}" for j in pg], "subline_by": [f"N{j}" for j in sb],
            "group_by": [f"N{j}" for j in gb], "row_base": row_base, "nrows": n}
    return {"cols": cols}, meta


def gen_page(rng, *, nrow=None, paper=None, placements=True, borders=True, col_width=None):
    kw: dict = {}
    if rng.random() < 0.4:
        kw["orientation"] = rng.choice(["portrait", "landscape"])
    paper = rng.random() < 0.35 if paper is None else paper
    if paper:
        def half_twip(lo, hi):
            # an exact half twip (odd multiple of 1/2880 in): where round-half-even, round-half-up and
            # truncation all disagree
            return (rng.randint(int(lo * 2880), int(hi * 2880)) | 1) / 2880

        w, h = rng.choice([(8.27, 11.69), (11.69, 8.27), (8.5, 14), (7.25, 10.5),
                           (round(rng.uniform(5, 14), 2), round(rng.uniform(5, 17), 2)),
                           (half_twip(5, 14), half_twip(5, 17)), (8 + 17 / 64, 11 + 45 / 64)])
        kw["width"], kw["height"] = w, h
        if rng.random() < 0.6:
            kw["margin"] = [round(rng.uniform(0.3, 1.6), rng.choice([1, 2, 3])) if rng.random() < 0.7
                            else half_twip(0.3, 1.6) for _ in range(6)]
            q = rng.random()
            if rng.random() < 0.12:
                # margins of zero (borderless output): still stated, RTF's own defaults are not zero
                for i in rng.sample(range(6), rng.randint(1, 6)):
                    kw["margin"][i] = 0
            if q < 0.15:
                # the four page margins equal, header / footer distance different
                kw["margin"] = [kw["margin"][0]] * 4 + kw["margin"][4:]
            elif q < 0.25:
                kw["margin"] = [kw["margin"][0]] * 6
            elif q < 0.35:
                kw["margin"] = [kw["margin"][0], kw["margin"][0], kw["margin"][2], kw["margin"][2],
                                kw["margin"][4], kw["margin"][4]]
        kw["col_width"] = round(min(w - 1.0, rng.uniform(2.0, 12.0)), 2)
    if col_width is not None:
        kw["col_width"] = col_width
    elif "col_width" not in kw and rng.random() < 0.3:
        kw["col_width"] = round(rng.uniform(2.0, 6.2), 2)
    if nrow is not None:
        kw["nrow"] = nrow
    if placements:
        for k in ("page_title", "page_footnote", "page_source"):
            if rng.random() < 0.5:
                kw[k] = rng.choice(PLACES)
    if borders:
        if rng.random() < 0.4:
            kw["border_first"] = rng.choice(BORDERS)
        if rng.random() < 0.4:
            kw["border_last"] = rng.choice(BORDERS)
    return kw


TEXT_FORMATS = ["", "b", "i", "bi", "u", "s", "bu", "^", "_", "ib", "biu", "ubi", "bb", "si"]


def scalar_attr(rng, name, half_points=False, color_pool=None):
    if name == "text_font":
        return rng.randint(1, 10)
    if name == "text_format":
        return rng.choice(TEXT_FORMATS)
    if name == "text_font_size":
        if half_points and rng.random() < 0.4:
            return rng.randint(13, 47) / 2.0
        return rng.randint(6, 24)
    if name in ("text_color", "text_background_color") or name.startswith("border_color_"):
        pool = color_pool or colors()
        return rng.choice(pool + [""]) if rng.random() < 0.85 else "black"
    if name == "text_justification":
        return rng.choice(["l", "c", "r", "j", "d"])
    if name in ("text_indent_first", "text_indent_left", "text_indent_right"):
        return rng.choice([0, 72, 144, 360, rng.randint(0, 720)])
    if name == "text_space":
        return rng.choice([1, 1, 2, 3])
    if name in ("text_space_before", "text_space_after"):
        return rng.choice([0, 15, 30, 90, 180, rng.randint(0, 300)])
    if name in ("text_hyphenation", "text_convert"):
        return rng.random() < 0.5
    if name in ("border_left", "border_right", "border_top", "border_bottom",
                "border_first", "border_last"):
        return rng.choice(BORDERS)
    if name == "border_width":
        return rng.choice([15, 5, 30, 45, rng.randint(1, 75), rng.choice([76, 100, 120, 200, 255])])
    if name == "cell_height":
        return rng.choice([0.15, 0.2, 0.3, 0.5, round(rng.uniform(0.05, 1.0), 2)])
    if name == "cell_justification":
        return rng.choice(["l", "c", "r"])
    if name == "cell_vertical_justification":
        return rng.choice(["top", "center", "bottom"])
    raise KeyError(name)


BODY_ATTRS = ["text_font", "text_format", "text_font_size", "text_color", "text_background_color",
              "text_justification", "text_indent_first", "text_indent_left", "text_indent_right",
              "text_space", "text_space_before", "text_space_after", "text_hyphenation",
              "border_left", "border_right", "border_top", "border_bottom", "border_width",
              "cell_height", "cell_justification", "cell_vertical_justification",
              "border_color_left", "border_color_right", "border_color_top", "border_color_bottom"]
TEXT_ATTRS = ["text_font", "text_format", "text_font_size", "text_color", "text_background_color",
              "text_justification", "text_indent_first", "text_indent_left", "text_indent_right",
              "text_space", "text_space_before", "text_space_after", "text_hyphenation"]


def shaped(rng, name, nrow, ncol, shape=None, **kw):
    shape = shape or rng.choice(["scalar", "row", "matrix"])
    if shape == "scalar":
        return scalar_attr(rng, name, **kw)
    if shape == "row":
        k = ncol
        if ncol >= 3 and rng.random() < 0.25:
            k = rng.randint(2, ncol - 1)     # a per-column pattern shorter than the table: recycled
        return [scalar_attr(rng, name, **kw) for _ in range(k)]
    rows = max(1, nrow)
    if rows > 2 and rng.random() < 0.35:
        rows = rng.randint(2, rows - 1)      # fewer rows than the table: recycled (zebra patterns)
    return [[scalar_attr(rng, name, **kw) for _ in range(ncol)] for _ in range(rows)]


def gen_body_attrs(rng, nrow, ncol, names=None, p=0.25, **kw):
    out = {}
    for name in names or BODY_ATTRS:
        if rng.random() < p:
            out[name] = shaped(rng, name, nrow, ncol, **kw)
    return out


def gen_text_comp(rng, tag, *, lines=None, rich=0.3, half_points=False, color_pool=None,
                  convert=None):
    n = lines or rng.choice([1, 1, 2, 3])
    kw: dict = {"text": [f"{tag}{k}" + (" " + words(rng, rng.randint(0, 3)) if rng.random() < 0.5 else "")
                         for k in range(n)]}
    if n == 1 and rng.random() < 0.5:
        kw["text"] = kw["text"][0]
    for name in TEXT_ATTRS:
        if rng.random() < rich * 0.5:
            if rng.random() < (0.5 if n == 1 else 0.25):
                kw[name] = scalar_attr(rng, name, half_points=half_points, color_pool=color_pool)
            else:
                # one value per line
                kw[name] = [scalar_attr(rng, name, half_points=half_points, color_pool=color_pool)
                            for _ in range(n)]
    if n > 1 and rng.random() < rich * 0.5:
        kw["text_justification"] = rng.sample(["l", "c", "r", "j"], min(n, 4))[:n] + ["l"] * max(0, n - 4)
    if convert is not None:
        kw["text_convert"] = convert
    return kw


def gen_tbl_text_comp(rng, tag, *, as_table=None, lines=None, rich=0.3, half_points=False,
                      color_pool=None, figure=False):
    n = lines or rng.choice([1, 1, 2, 3])
    kw: dict = {"text": [f"{tag}{k}" + (" " + words(rng, rng.randint(0, 3)) if rng.random() < 0.5 else "")
                         for k in range(n)]}
    if n == 1 and rng.random() < 0.5:
        kw["text"] = kw["text"][0]
    if figure:
        kw["as_table"] = False
    elif as_table is not None:
        kw["as_table"] = as_table
    elif rng.random() < 0.6:
        kw["as_table"] = rng.random() < 0.5
    for name in TEXT_ATTRS + ["border_left", "border_right", "border_top", "border_bottom"]:
        if rng.random() < rich * 0.4:
            kw[name] = scalar_attr(rng, name, half_points=half_points, color_pool=color_pool)
    if n >= 2 and rng.random() < 0.35:
        # one value per text line, as a column vector (what a tuple becomes): a table-rendered footnote / source is
        # still ONE row
        for name in rng.sample(["text_font_size", "text_format", "text_font", "text_color", "text_justification"],
                               rng.randint(1, 3)):
            kw[name] = [[scalar_attr(rng, name, half_points=half_points, color_pool=color_pool)] for _ in range(n)]
    return kw


def gen_colheader(rng, ndisp, mode=None, base=0, rich=0.2, half_points=False, color_pool=None):
    """mode: default | none | explicit | explicit_w | tworow | empty_text"""
    mode = mode or rng.choice(["default", "default", "none", "explicit", "explicit", "explicit_w", "tworow"])
    if mode in ("default", "none"):
        return mode
    rows = []

    def hdr(k, n, widths):
        kw: dict = {"text": [f"H{base + k}c{j}" for j in range(n)]}
        if n >= 2 and rng.random() < 0.15:
            # labels repeat in real headers ("n", "(%)", "n", "(%)"): still one cell per label
            for j in range(1, n):
                if rng.random() < 0.5:
                    kw["text"][j] = kw["text"][rng.randrange(j)]
        if widths:
            kw["col_rel_width"] = [rng.choice([1, 1, 2, 0.5, round(rng.uniform(0.2, 10), 2)]) for _ in range(n)]
        for name in TEXT_ATTRS + ["border_left", "border_right", "border_top", "border_bottom"]:
            if rng.random() < rich * 0.4:
                kw[name] = (scalar_attr(rng, name, half_points=half_points, color_pool=color_pool)
                            if rng.random() < 0.5 else
                            [scalar_attr(rng, name, half_points=half_points, color_pool=color_pool) for _ in range(n)])
        return kw

    if mode == "explicit":
        rows.append(hdr(0, ndisp, False))
    elif mode == "explicit_w":
        rows.append(hdr(0, ndisp, True))
    elif mode == "tworow":
        nspan = rng.randint(1, max(1, min(3, ndisp)))
        rows.append(hdr(0, nspan, True))
        rows.append(hdr(1, ndisp, rng.random() < 0.3))
    else:
        raise KeyError(mode)
    return rows


NAME_DECOR = [" (%)", ", n", " [mg/dL]", " " + chr(0x2126), " " + chr(0x212A) + "elvin", " e" + chr(0x301), " " + chr(0xB5) + "g",
              " Gr" + chr(0xF6) + chr(0xDF) + "e", " " + chr(0x5E74) + chr(0x9F62), "  ", " x", ".1", " n, %", "-total", " #"]


def decorate_names(rng, spec, p=0.5):
    """column names are not always bare identifiers: decorate some (the tag stays in front), and let one be the
    lower-case sibling of another; every reference to a renamed column follows"""
    cols = spec["df"]["cols"]
    ren = {}
    for c in cols:
        if rng.random() < p:
            ren[c["name"]] = c["name"] + rng.choice(NAME_DECOR)
    plain = [c["name"] for c in cols if c["name"] not in ren]
    if len(cols) >= 2 and plain and rng.random() < 0.3:
        a = rng.choice(plain)
        b = rng.choice([c["name"] for c in cols if c["name"] != a])
        m = TAGNUM.fullmatch(a)
        if m:
            # "N3" and "n3": equal after case folding, still two columns
            ren[b] = a.lower()
    for c in cols:
        c["name"] = ren.get(c["name"], c["name"])
    for holder in (spec.get("body", {}), spec.get("_meta", {})):
        for k in ("page_by", "subline_by", "group_by"):
            if isinstance(holder.get(k), list):
                holder[k] = [ren.get(x, x) for x in holder[k]]
    return ren


import re as _re2
TAGNUM = _re2.compile(r"N\d+")


def displayed_count(df_ncols, body):
    n = df_ncols
    sb = body.get("subline_by") or []
    pg = body.get("page_by") or []
    n -= len(sb)
    if pg and not (body.get("new_page") and body.get("pageby_row", "column") == "column"):
        n -= len(pg)
    return n


def gen_table_spec(rng, *, nrows=(0, 30), ncols=(1, 6), strategy=None, header=None, nrow=None,
                   convert=True, attrs_p=0.2, rich=0.3, half_points=False, group_by=None,
                   footnote=None, source=None, title=None, subline=None, page_hf=None,
                   page=None, col_rel_width=None, color_pool=None, attr_names=None,
                   maxruns=4, row_base=0, hdr_base=0, as_colheader_false=0.0, page_kw=None, long_p=0.0):
    """General single-table document.  strategy in
    plain | page_by | page_by_new | page_by_new_first | subline | subline_page_by | nested"""
    n = rng.randint(*nrows) if isinstance(nrows, tuple) else nrows
    nc = rng.randint(*ncols) if isinstance(ncols, tuple) else ncols
    strategy = strategy or rng.choice(["plain", "plain", "page_by", "page_by_new", "page_by_new_first",
                                       "subline", "subline_page_by", "subline_page_by", "nested"])
    pg = sb = 0
    body: dict = {}
    if strategy in ("page_by", "page_by_new", "page_by_new_first"):
        pg = rng.choice([1, 1, 2])
    elif strategy == "nested":
        pg = rng.choice([2, 3])
    elif strategy == "subline":
        sb = rng.choice([1, 1, 2])
    elif strategy == "subline_page_by":
        sb, pg = 1, rng.choice([1, 2])
    gb = 0
    if group_by is None:
        group_by = False
    if group_by:
        gb = rng.choice([1, 1, 2, 3]) if group_by is True else group_by
    need = pg + sb + gb + 1
    nc = max(nc, need + (1 if rng.random() < 0.7 else 0))
    pattern = None
    if not convert and nc >= 3 and rng.random() < 0.35:
        # text_convert as a per-column pattern SHORTER than the table (recycled over the frame's columns)
        k = rng.randint(2, nc - 1)
        pattern = [rng.random() < 0.5 for _ in range(k)]
        if all(pattern) or not any(pattern):
            pattern[rng.randrange(k)] = not pattern[0]
    df, meta = gen_df(rng, n, nc, convert=pattern if pattern else convert, group_cols=pg, subline_cols=sb, groupby_cols=gb,
                      row_base=row_base, maxruns=maxruns, long_p=long_p)
    nc = len(df["cols"])
    if pg:
        body["page_by"] = meta["page_by"]
        if strategy in ("page_by_new", "page_by_new_first") or (strategy == "nested" and rng.random() < 0.3):
            body["new_page"] = True
            if strategy == "page_by_new_first" or (strategy == "nested" and rng.random() < 0.5):
                body["pageby_row"] = "first_row"
    if pg and "pageby_row" not in body and rng.random() < 0.2:
        body["pageby_row"] = "first_row"          # without new_page the option must change nothing
    if sb:
        body["subline_by"] = meta["subline_by"]
        if pg and rng.random() < 0.4:
            # subline_by + page_by + new_page (page_by column kept or shown as first row)
            body["new_page"] = True
            if rng.random() < 0.5:
                body["pageby_row"] = "first_row"
    if gb:
        body["group_by"] = meta["group_by"]
    if rng.random() < 0.3:
        body["pageby_header"] = rng.random() < 0.5
    if pattern:
        body["text_convert"] = [pattern] if rng.random() < 0.5 else list(pattern)
    elif not convert:
        body["text_convert"] = False
    if col_rel_width is None:
        col_rel_width = rng.random() < 0.4
    if col_rel_width:
        body["col_rel_width"] = [rng.choice([1, 1, 2, 3, 0.5, round(rng.uniform(0.2, 10), 2)]) for _ in range(nc)]
    if sb and "col_rel_width" in body and rng.random() < 0.4:
        # the documented short form: one width per column that remains once the subline_by columns are gone
        names_ = [c["name"] for c in df["cols"]]
        body["col_rel_width"] = [w for j, w in enumerate(body["col_rel_width"]) if names_[j] not in meta["subline_by"]]
    body.update(gen_body_attrs(rng, n, nc, names=attr_names, p=attrs_p, half_points=half_points,
                               color_pool=color_pool))
    if rng.random() < as_colheader_false:
        body["as_colheader"] = False
    # HOW an option is supplied must not matter: the default given explicitly, None or an empty list instead
    # of leaving the argument out
    if rng.random() < 0.3:
        for k, dv in (("new_page", False), ("pageby_row", "column"), ("as_colheader", True), ("pageby_header", True),
                      ("page_by", rng.choice([None, []])), ("subline_by", rng.choice([None, []])),
                      ("group_by", rng.choice([None, []])), ("text_convert", True), ("col_rel_width", None)):
            if k not in body and rng.random() < 0.35:
                body[k] = dv
    ndisp = displayed_count(nc, body)
    spec: dict = {"kind": "table", "df": df, "body": body, "_meta": meta}
    if rng.random() < 0.5:
        spec["_forms"] = rng.randint(1, 10**6)
    spec["colheader"] = gen_colheader(rng, ndisp, mode=header, base=hdr_base, rich=rich,
                                      half_points=half_points, color_pool=color_pool)
    pk = gen_page(rng, nrow=nrow) if page is None else dict(page)
    if page_kw:
        pk.update(page_kw)
    if pk:
        spec["page"] = pk

    def opt(flag, p):
        return rng.random() < p if flag is None else flag

    if opt(title, 0.6):
        spec["title"] = gen_text_comp(rng, "TT", rich=rich, half_points=half_points, color_pool=color_pool)
    elif rng.random() < 0.5:
        spec["title"] = None
    if opt(subline, 0.3):
        spec["subline"] = gen_text_comp(rng, "SL", rich=rich, half_points=half_points, color_pool=color_pool)
    if opt(page_hf, 0.3):
        if rng.random() < 0.5:
            spec["page_header"] = {} if rng.random() < 0.5 else gen_text_comp(
                rng, "PH", lines=rng.choice([1, 1, 2, 3]), rich=rich, half_points=half_points, color_pool=color_pool)
        if rng.random() < 0.6:
            spec["page_footer"] = gen_text_comp(rng, "PF", rich=rich, half_points=half_points,
                                                color_pool=color_pool)
    if opt(footnote, 0.5):
        spec["footnote"] = gen_tbl_text_comp(rng, "FN", rich=rich, half_points=half_points, color_pool=color_pool)
    if opt(source, 0.5):
        spec["source"] = gen_tbl_text_comp(rng, "SR", rich=rich, half_points=half_points, color_pool=color_pool)
    if rng.random() < 0.15:
        decorate_names(rng, spec)
    return spec


def gen_multi_spec(rng, *, nsec=(2, 4), nrows=(1, 12), ncols=(1, 5), convert=True, attrs_p=0.15,
                   rich=0.3, half_points=False, color_pool=None, same_cols=None, nrow=None,
                   header_mode=None, long_p=0.0, grouping=True):
    k = rng.randint(*nsec)
    sections = []
    base = 0
    same = rng.random() < 0.5 if same_cols is None else same_cols
    nc0 = rng.randint(*ncols)
    for s in range(k):
        n = rng.randint(*nrows)
        nc = nc0 if same else rng.randint(*ncols)
        # a section may consume columns through page_by / subline_by like a single table
        sec_kind = rng.choice(["plain", "plain", "plain", "page_by", "page_by", "subline"]) if grouping else "plain"
        df, meta = gen_df(rng, n, nc, convert=convert, row_base=base, long_p=long_p,
                          group_cols=1 if sec_kind == "page_by" else 0,
                          subline_cols=1 if sec_kind == "subline" else 0, maxruns=3)
        nc = len(df["cols"])
        base += n
        body: dict = {}
        if sec_kind == "page_by":
            body["page_by"] = meta["page_by"]
        elif sec_kind == "subline":
            body["subline_by"] = meta["subline_by"]
        if not convert:
            body["text_convert"] = False
        if rng.random() < 0.4:
            body["col_rel_width"] = [rng.choice([1, 2, 0.5, round(rng.uniform(0.2, 10), 2)]) for _ in range(nc)]
        body.update(gen_body_attrs(rng, n, nc, p=attrs_p, half_points=half_points, color_pool=color_pool))
        sec = {"df": df, "body": body, "_meta": meta}
        sec["colheader"] = gen_colheader(rng, displayed_count(nc, body), mode=rng.choice(["default", "none", "explicit"]),
                                         base=10 * s, rich=rich, half_points=half_points, color_pool=color_pool)
        sections.append(sec)
    spec: dict = {"kind": "multi", "sections": sections,
                  "multi_header": header_mode or rng.choice(["nested", "nested", "flat"])}
    pk = gen_page(rng, nrow=nrow)
    if pk:
        spec["page"] = pk
    if rng.random() < 0.6:
        spec["title"] = gen_text_comp(rng, "TT", rich=rich, half_points=half_points, color_pool=color_pool)
    if rng.random() < 0.3:
        spec["subline"] = gen_text_comp(rng, "SL", rich=rich, half_points=half_points, color_pool=color_pool)
    if rng.random() < 0.3:
        spec["page_footer"] = gen_text_comp(rng, "PF", rich=rich, half_points=half_points, color_pool=color_pool)
    if rng.random() < 0.3:
        spec["page_header"] = {}
    if rng.random() < 0.5:
        spec["footnote"] = gen_tbl_text_comp(rng, "FN", rich=rich, half_points=half_points, color_pool=color_pool)
    if rng.random() < 0.5:
        spec["source"] = gen_tbl_text_comp(rng, "SR", rich=rich, half_points=half_points, color_pool=color_pool)
    return spec


# ---------------------------------------------------------------- figures

def png_bytes(rng, w, h, extra):
    ihdr = struct.pack(">II", w, h) + bytes([8, 2, 0, 0, 0])
    body = b"\x89PNG\r\n\x1a\n" + struct.pack(">I", 13) + b"IHDR" + ihdr + rng.randbytes(4)
    return body + rng.randbytes(extra)


SOF_MARKERS = [0xC0, 0xC1, 0xC2, 0xC3, 0xC5, 0xC6, 0xC7, 0xC9, 0xCA, 0xCB, 0xCD, 0xCE, 0xCF]


def jpeg_bytes(rng, w, h, extra, napp=None):
    out = bytearray(b"\xff\xd8")
    napp = rng.randint(0, 3) if napp is None else napp
    for _ in range(napp):
        ln = rng.randint(2, 40)
        # APPn payload free of 0xFF so that the segment structure is unambiguous
        payload = bytes(b if b != 0xFF else 0x7F for b in rng.randbytes(ln - 2))
        # APPn, DQT, COM and the 0xC? markers that are NOT frame headers (DHT, JPG, DAC), DRI
        out += bytes([0xFF, rng.choice([0xE0, 0xE1, 0xE2, 0xEE, 0xDB, 0xFE, 0xC4, 0xC4, 0xC8, 0xCC, 0xDD])]) + \
            struct.pack(">H", ln) + payload
    if rng.random() < 0.04:
        # embedded profiles / thumbnails: more than 64 KiB of segments before the frame header
        for _ in range(rng.randint(2, 4)):
            ln = rng.randint(30000, 65535)
            out += bytes([0xFF, rng.choice([0xE1, 0xE2])]) + struct.pack(">H", ln) + bytes(ln - 2)
    m = rng.choice(SOF_MARKERS)
    out += bytes([0xFF, m]) + struct.pack(">H", 17) + bytes([8]) + struct.pack(">HH", h, w)
    out += bytes([3, 1, 0x22, 0, 2, 0x11, 1, 3, 0x11, 1])
    out += rng.randbytes(extra) + b"\xff\xd9"
    return bytes(out)


def emf_bytes(rng, extra):
    return struct.pack("<II", 1, 88) + rng.randbytes(80) + rng.randbytes(extra)


def gen_figure_file(rng, idx, fmt=None):
    fmt = fmt or rng.choice(["png", "png", "jpeg", "jpeg", "emf"])
    extra = rng.choice([0, 1, 7, 39, 40, 41, 79, 80, 81, rng.randint(0, 4000)])
    if fmt == "png":
        w = rng.choice([0, 1, 2, 640, 65535, 65536, 2**31 - 1, rng.randint(1, 2**31 - 1)])
        h = rng.choice([0, 1, 3, 480, 65535, 70000, 2**31 - 1, rng.randint(1, 2**31 - 1)])
        data = png_bytes(rng, w, h, extra)
        suffix = rng.choice([".png", ".png", ".PNG", ".Png"])
    elif fmt == "jpeg":
        # (a frame height of 0 is legal JPEG: the line count may follow in a DNL segment)
        w = rng.choice([0, 1, 2, 640, 65535, rng.randint(1, 65535)])
        h = rng.choice([0, 1, 3, 480, 65535, rng.randint(1, 65535)])
        data = jpeg_bytes(rng, w, h, extra)
        suffix = rng.choice([".jpg", ".jpeg", ".JPG", ".JPEG", ".Jpeg"])
    else:
        w = h = None
        data = emf_bytes(rng, extra)
        suffix = rng.choice([".emf", ".EMF"])
    return {"name": f"fig{idx}{suffix}", "hex": data.hex(), "_fmt": fmt, "_w": w, "_h": h}


def gen_figure_spec(rng, *, nfig=(1, 6), rich=0.3, color_pool=None, half_points=False):
    k = rng.randint(*nfig)
    files = [gen_figure_file(rng, i) for i in range(k)]
    fkw: dict = {}

    def dims():
        r = rng.random()
        if r < 0.3:
            return round(rng.uniform(0.5, 9), 2)
        n = rng.choice([1, k, max(1, k - 1), k + 2, rng.randint(1, 7)])
        return [rng.choice([round(rng.uniform(0.5, 9), 2), 3, 5.0, 2.5]) for _ in range(n)]

    if rng.random() < 0.8:
        fkw["fig_width"] = dims()
    if rng.random() < 0.8:
        fkw["fig_height"] = dims()
    if rng.random() < 0.7:
        fkw["fig_align"] = rng.choice(["left", "center", "right"])
    spec: dict = {"kind": "figure", "figure": {"files": files, "kw": fkw}}
    if rng.random() < 0.2:
        # a figure shown twice (legend, plot, legend): one page per ENTRY of the list
        spec["figure"]["order"] = list(range(k)) + [rng.randrange(k) for _ in range(rng.randint(1, 2))]
        rng.shuffle(spec["figure"]["order"])
    if rng.random() < 0.5:
        spec["_forms"] = rng.randint(1, 10**6)
    if k == 1 and rng.random() < 0.3:
        spec["figure"]["single_path"] = True
    pk = gen_page(rng, borders=False)
    if pk:
        spec["page"] = pk
    if rng.random() < 0.7:
        spec["title"] = gen_text_comp(rng, "TT", rich=rich, color_pool=color_pool, half_points=half_points)
    elif rng.random() < 0.5:
        spec["title"] = None
    if rng.random() < 0.3:
        spec["subline"] = gen_text_comp(rng, "SL", rich=rich, color_pool=color_pool, half_points=half_points)
    if rng.random() < 0.6:
        spec["footnote"] = gen_tbl_text_comp(rng, "FN", figure=True, rich=rich, color_pool=color_pool,
                                             half_points=half_points)
    if rng.random() < 0.6:
        spec["source"] = gen_tbl_text_comp(rng, "SR", figure=True, rich=rich, color_pool=color_pool,
                                           half_points=half_points)
    if rng.random() < 0.3:
        spec["page_header"] = {} if rng.random() < 0.5 else gen_text_comp(rng, "PH", lines=1, rich=rich,
                                                                          color_pool=color_pool)
    if rng.random() < 0.3:
        spec["page_footer"] = gen_text_comp(rng, "PF", rich=rich, color_pool=color_pool)
    return spec


def maybe_prior(rng, spec, p=0.08):
    """with_prior for a share p of the table documents of a workload (the explicit default header excepted: the
    other checks' expectations know "default", "none" and headers with labels)"""
    if spec.get("kind", "table") == "table" and rng.random() < p:
        with_prior(rng, spec, explicit_default_header=False)
    return spec


def with_prior(rng, spec, explicit_default_header=True):
    """the document is not the first one its components were used for: attaches "prior" documents (near twins
    of the spec: a column less or more, fewer rows, other texts, the same table as a section of a
    multi-section document with nested headers) which spec.build constructs and encodes first FROM ONE POOL OF
    COMPONENT OBJECTS - every component whose settings are equal in two of the documents is one object"""
    import copy
    if spec.get("kind", "table") != "table" or spec.get("prior"):
        return spec
    if explicit_default_header and spec.get("colheader", "default") == "default" and rng.random() < 0.5:
        # an explicitly passed default header: rtf_column_header=[RTFColumnHeader()]
        spec["colheader"] = [{}]
    priors = []
    for _ in range(rng.choice([1, 1, 2])):
        p = copy.deepcopy({k: v for k, v in spec.items() if k != "prior"})
        p.pop("_forms", None)
        cols = p["df"]["cols"]
        keys = set()
        for k in ("page_by", "subline_by", "group_by"):
            v = p["body"].get(k) or []
            keys |= set([v] if isinstance(v, str) else v)
        for _ in range(rng.choice([1, 1, 2])):
            m = rng.random()
            free = [c for c in cols if c["name"] not in keys]
            if m < 0.3 and len(free) > 1:
                cols.remove(rng.choice(free))
            elif m < 0.55:
                n = len(cols[0]["values"]) if cols else 0
                for x in range(rng.randint(1, 3)):
                    cols.append({"name": f"X{x}9", "dtype": "str", "values": [f"x{i}" for i in range(n)]})
            elif m < 0.7 and cols and len(cols[0]["values"]) > 1:
                h = rng.randint(1, len(cols[0]["values"]) - 1)
                for c in cols:
                    c["values"] = c["values"][:h]
            elif m < 0.8:
                key = rng.choice(["title", "footnote", "source", "subline"])
                if isinstance(p.get(key), dict):
                    p[key]["text"] = "other text"
                else:
                    p[key] = {"text": "other text"}
            else:
                p["_as_multi"] = True
        if p.pop("_as_multi", False):
            sec = {"df": p.pop("df"), "body": p.pop("body"), "colheader": p.pop("colheader", "default"),
                   "_meta": {"nrows": 1}}
            sec2 = copy.deepcopy(sec)
            sec2["colheader"] = rng.choice(["none", "none", sec["colheader"]])
            free = [c for c in sec["df"]["cols"] if c["name"] not in keys]
            if rng.random() < 0.6 and len(free) > 1:
                for c in rng.sample(free, rng.randint(1, len(free) - 1)):
                    sec["df"]["cols"].remove(c)
            if rng.random() < 0.5 and len(sec2["df"]["cols"]) > 1 + len(keys):
                free = [c for c in sec2["df"]["cols"] if c["name"] not in keys]
                sec2["df"]["cols"].remove(rng.choice(free))
            p.update(kind="multi", sections=[sec, sec2], multi_header="nested")
        priors.append(p)
    spec["prior"] = priors
    return spec
