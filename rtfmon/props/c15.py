"""C15 - concurrent encodes do not interfere.

Worker threads run rtf_encode() under the baton scheduler (rtfmon/sched.py):
the schedule says at which library call boundary a thread is preempted and who
runs next, so interleavings are enumerated systematically instead of hoped for.
Oracle: every thread's string equals the string the same document yields alone.
"""
from __future__ import annotations

import contextlib
import io
import os
import random

from .. import gen as G
from .. import spec as S
from . import c14

PID = "C15"
LEVEL = "exploration"
RULE = ("pairs/triples of pool documents with different palettes and shapes, each encoded on its own thread "
        "under a deterministic scheduler; schedule = set of (thread, library call boundary, next thread) "
        "preemptions. Exhaustive: every single preemption at every boundary of every thread of the listed "
        "pairs (the other thread then runs to completion); two preemptions on a grid of boundaries (thread A left at "
        "k1, thread B left at k2, A completes, B completes; denser in the first tenth of an encode); cold-start "
        "schedules in fresh interpreters; sampled: 2-4 preemptions, 3 threads; free-running (unscheduled) threads "
        "in fresh interpreters with a 1 microsecond switch interval, 4 pairs x 6 (thorough 100) processes x 6 encodes. "
        "non-trivial = >=1 preemption actually taken; distinct by (documents, schedule) hash")
ASSUMPTIONS = ["threads are only switched at Python function entries inside src/rtflite (points where CPython "
               "may switch threads anyway); finer-grained (bytecode-level) preemption is not explored",
               "exactly one worker thread runs at a time (baton), so the monitor's own state cannot race"]
DECIDING = ["schedules_run", "preemptions_taken", "thread_results_compared", "shared_state_ops_seen",
            "cold_start_schedules", "double_preemption_grid_schedules"]
FLOOR = {"quick": 1500, "thorough": 20000}
EXHAUSTIVE_NOTE = {"quick": "every single-preemption schedule of pair (col_a, col_b), both directions (pair pal12_a, pal12_b: every third boundary)",
                   "thorough": "every single-preemption schedule of all pairs, both directions (pairs with more than 9000 "
                               "boundaries: every s-th boundary, see notes); 40x40 double-preemption grid of 5 pairs"}

MAX_SINGLE = 9000
PAIRS = [("col_a", "col_b"), ("pal12_a", "pal12_b"), ("col_a", "multi_a"), ("figure", "col_b"), ("pageby", "multi_b"),
         ("raising", "col_a"), ("bcol_a", "bcol_b"), ("paged_s8", "paged_s14"), ("blk_a", "col_b"),
         ("badcolor", "col_a"), ("multi_raising", "multi_b"), ("graded_s9", "graded_s92"),
         ("multi3_p", "multi3_l"), ("title_vec", "col_b"),
         ("const_a", "const_b"), ("shr_a", "shr_b"), ("shr_c", "shr_b"), ("grp_a", "grp_b"), ("grp_c", "grp_a")]
# double preemptions on a grid: thread 0 is left at its k1-th boundary, thread 1 at its k2-th, then thread 0
# runs to its end before thread 1 resumes (and the mirror image)
GRID_PAIRS = [("blk_a", "col_b"), ("badcolor", "col_b"), ("col_a", "col_b"), ("graded_s9", "graded_s92"),
              ("pal12_a", "blk_a"), ("shr_a", "shr_c")]
# documents that are built FROM THE SAME COMPONENT OBJECTS (one title, one header, one footnote, one table-rendered
# source kept by the caller and passed to both documents): an encode may read them, the other thread reads them too
_SH = {"title": {"text": "TT0"}, "colheader": [{}], "footnote": {"text": "FN0"},
       "source": {"text": "SR0", "as_table": True}, "subline": {"text": "SL0"}}
SHARED = {
    "shr_a": dict(_SH, kind="table", df=c14.tagged(3, 3), body={}),
    "shr_b": dict(_SH, kind="table", df=c14.tagged(4, 3), body={}, page={"border_last": "", "border_first": ""}),
    "shr_c": dict(_SH, kind="table", df=c14.tagged(7, 3), body={}, page={"nrow": 12, "page_footnote": "all",
                                                                       "page_source": "all"}),
}
# two group_by documents with the SAME column names, one of them with one row per page (every page start needs its
# group value restored)
def _grp(n, labels, nrow):
    return {"kind": "table", "page": {"nrow": nrow}, "title": None, "colheader": "none",
            "df": c14.tagged(n, 2, extra=[{"name": "N2", "dtype": "str", "values": labels}]),
            "body": {"group_by": ["N2"]}}


LOCAL = {"grp_a": _grp(6, ["a"] * 3 + ["b"] * 3, 1), "grp_b": _grp(4, ["x", "x", "y", "y"], 3),
         "grp_c": _grp(9, ["p"] * 4 + ["q"] * 5, 2)}


def _uni(chars, n):
    df = c14.tagged(n, 2)
    df["cols"].append({"name": "U", "dtype": "str", "values": ["".join(chr(c + r) for c in chars) for r in range(n)]})
    return {"kind": "table", "df": df, "body": {}, "title": {"text": "TT0 " + "".join(chr(c) for c in chars)},
            "footnote": {"text": "FN0 " + chr(chars[0])}}


# non-ASCII text from different blocks (first use of the escaper in a cold process is inside the window)
LOCAL["uni_a"] = _uni([0x4E2D, 0x6587, 0xAC00, 0xFF21], 4)
LOCAL["uni_b"] = _uni([0x3B1, 0x416, 0xE9, 0x1F600], 5)
STRESS_PAIRS = [("uni_a", "uni_b"), ("paged_s8", "paged_s14"), ("col_a", "col_b"), ("grp_a", "grp_c")]
TRIPLES = [("col_a", "col_b", "multi_a"), ("figure", "pageby", "col_b"), ("col_a", "raising", "multi_b")]


def exhaustive(tier):
    return False


def plan(tier, seed):
    descs = []
    pairs = (PAIRS[:2] + [("multi3_p", "multi3_l"), ("title_vec", "col_b"), ("const_a", "const_b"),
                          ("shr_a", "shr_b"), ("grp_a", "grp_b")]) \
        if tier == "quick" else PAIRS
    k = 12 if tier == "quick" else 13
    for pi, pair in enumerate(pairs):
        # quick: the first pair at every call boundary, the second at every third one
        stride = 3 if (tier == "quick" and pi > 0 and pair[0] not in SHARED and pair[0] not in LOCAL) else 1
        for i in range(k // stride):
            descs.append({"kind": "single", "docs": list(pair), "lo": i * stride, "step": k, "timeout": 1800})
    cold = COLD_PAIRS[:2] if tier == "quick" else COLD_PAIRS
    for pair in cold:
        for i in range(5):
            # (fresh interpreters are slow to start on a saturated machine: generous watchdog, inconclusive if hit)
            descs.append({"kind": "cold", "docs": list(pair), "lo": i, "step": 5,
                          "timeout": 1800 if tier == "quick" else 7200})
    g = 12 if tier == "quick" else 40
    for pair in (GRID_PAIRS[:4] if tier == "quick" else GRID_PAIRS):
        for i in range(4):
            descs.append({"kind": "grid", "docs": list(pair), "g": g, "lo": i, "step": 4, "timeout": 1800})
    for pair in STRESS_PAIRS:
        for i in range(1 if tier == "quick" else 4):
            descs.append({"kind": "stress", "docs": list(pair), "procs": 6 if tier == "quick" else 25,
                          "reps": 6, "timeout": 1800 if tier == "quick" else 7200})
    nrand = 400 if tier == "quick" else 20000
    for i in range(4 if tier == "quick" else 16):
        descs.append({"kind": "sampled", "n": nrand // (4 if tier == "quick" else 16), "timeout": 1800})
    return descs


def classify(v):
    return None


class Env:
    def __init__(self):
        import rtflite
        from ..sched import Scheduler
        self.root = os.path.dirname(rtflite.__file__)
        self.sched = Scheduler(self.root)
        self.docs = {}
        self.solo = {}
        self.nb = {}
        self.tmp = []
        self.pool = {}
        self._install_trace()

    def _install_trace(self):
        from rtflite.services import color_service as m
        cls = type(m.color_service)
        sched = self.sched
        self._orig = {}
        for name in ("set_document_context", "clear_document_context", "get_rtf_color_index"):
            orig = getattr(cls, name)
            self._orig[name] = orig

            def make(orig, name):
                def wrapped(self_s, *a, **kw):
                    if sched.active:
                        sched.trace.append((sched.current(), name))
                    return orig(self_s, *a, **kw)
                return wrapped
            setattr(cls, name, make(orig, name))

    def close(self):
        from rtflite.services import color_service as m
        cls = type(m.color_service)
        for name, orig in self._orig.items():
            setattr(cls, name, orig)
        self.sched.close()
        import shutil
        for t in self.tmp:
            shutil.rmtree(t, ignore_errors=True)

    def job(self, name):
        doc = self.docs[name]

        def fn():
            with contextlib.redirect_stdout(io.StringIO()):
                return doc.rtf_encode()
        return fn

    def prepare(self, names):
        import tempfile
        for n in names:
            if n in self.docs:
                continue
            td = tempfile.mkdtemp(prefix="rtfmon-c15-")
            self.tmp.append(td)
            if n in SHARED:
                import rtflite
                self.docs[n] = rtflite.RTFDocument(**S.build_components(SHARED[n], td, self.pool))
                # (counted when a second document really received an object the first one holds)
                self.shared_objects = sum(
                    1 for a in self.docs for b in self.docs if a < b and a in SHARED and b in SHARED
                    for f in ("rtf_title", "rtf_footnote", "rtf_source", "rtf_subline")
                    if getattr(self.docs[a], f) is getattr(self.docs[b], f) and getattr(self.docs[a], f) is not None)
            elif n in LOCAL:
                self.docs[n] = S.build(LOCAL[n], td)
            else:
                self.docs[n] = S.build(c14.POOL[n], td)
            # solo result, measured under the same monitoring (twice: warm caches first)
            for _ in range(2):
                res, fin = self.sched.run({n: self.job(n)}, {}, n)
            self.solo[n] = res[n]
            self.nb[n] = self.sched.counts[n]


def run_schedule(ctx, env, names, plan, first, label):
    jobs = {f"T{i}:{n}": env.job(n) for i, n in enumerate(names)}
    keys = list(jobs)
    p = {keys[i]: {k: keys[t] for k, t in pl.items()} for i, pl in plan.items()}
    res, finished = env.sched.run(jobs, p, keys[first])
    case = {"docs": list(names), "plan": {str(i): {str(k): t for k, t in pl.items()} for i, pl in plan.items()},
            "first": first}
    taken = list(env.sched.taken)
    ctx.count("schedules_run")
    ctx.case(case, nontrivial=bool(taken))
    ctx.sample({"case": case, "preemptions_taken": [(t[0], t[1], t[2] + ":" + t[3], t[4]) for t in taken]}, limit=4)
    if not finished:
        ctx.count("schedule_watchdog_fired")
        return
    ctx.count("preemptions_taken", len(taken))
    for t in taken:
        ctx.distinct("preemption_sites", t[2] + ":" + t[3])
    ctx.count("shared_state_ops_seen", len(env.sched.trace))
    # distinct interleavings of the shared colour-state operations (run-length compressed thread order)
    sig = []
    for th, op in env.sched.trace:
        if not sig or sig[-1] != th:
            sig.append(th)
    if len(sig) > 1:
        ctx.distinct("shared_state_interleavings", "|".join(sig)[:200] + "#" + str(len(env.sched.trace)))
    for i, n in enumerate(names):
        ctx.count("thread_results_compared")
        got = res.get(keys[i])
        want = env.solo[n]
        if got != want:
            where = [(t[0], t[1], t[2] + ":" + t[3]) for t in taken]
            if got and want and got[0] == want[0] == "ok":
                a, b = got[1], want[1]
                j = next((x for x, (c, d) in enumerate(zip(a, b)) if c != d), min(len(a), len(b)))
                diff = f"at char {j}: {a[max(0, j - 20):j + 20]!r} vs alone {b[max(0, j - 20):j + 20]!r}"
            else:
                diff = f"{str(got)[:80]} vs alone {str(want)[:80]}"
            ctx.violation(f"thread encoding {n} returned a different result than alone ({label}); {diff}",
                          case, {"preemptions": where, "thread": i})


COLD_PAIRS = [("col_a", "pageby"), ("subline", "col_b"), ("pageby", "multi_a"), ("figure", "subline")]
COLD_BOUNDARIES = 70


def _cold_child(argv):
    """entry point of a FRESH interpreter: python -m rtfmon.props.c15 --cold <mode> <names> [me k]"""
    import json
    import sys
    import tempfile
    from ..run import use_repo
    use_repo()
    import rtflite
    mode, names = argv[0], argv[1].split(",")
    # import every submodule up front: a thread parked by the scheduler while it holds the import
    # lock (lazy `from .encoding import ...` inside rtf_encode) would block the other thread for
    # good - an interleaving real CPython cannot have.  Importing is not encoding: registries stay cold.
    import importlib
    import pkgutil
    for m in pkgutil.walk_packages(rtflite.__path__, "rtflite."):
        try:
            importlib.import_module(m.name)
        except Exception:
            pass
    td = tempfile.mkdtemp(prefix="rtfmon-c15cold-")
    docs = {n: S.build(LOCAL.get(n) or c14.POOL[n], td) for n in names}       # construction only, nothing encoded yet

    def encode_fn(n):
        def fn():
            if mode == "stress":
                # (redirect_stdout swaps a process-wide variable: free-running threads would race on it)
                return docs[n].rtf_encode()
            with contextlib.redirect_stdout(io.StringIO()):
                return docs[n].rtf_encode()
        return fn
    if mode == "stress":
        sys.stdout = io.StringIO()
        # free-running threads (no baton): CPython may switch between any two bytecodes; the switch interval is
        # made tiny so that it does so all the time.  Every thread encodes its document `reps` times.
        import threading
        reps = int(argv[2])
        sys.setswitchinterval(1e-6)
        bar = threading.Barrier(len(names))
        got = {n: [] for n in names}

        def run(n):
            fn = encode_fn(n)
            bar.wait()
            for _ in range(reps):
                try:
                    got[n].append(["ok", fn()])
                except Exception as e:  # noqa
                    got[n].append(["exc", type(e).__name__ + ": " + str(e)[:200]])
        ths = [threading.Thread(target=run, args=(n,)) for n in names]
        for t in ths:
            t.start()
        for t in ths:
            t.join(300)
        # distinct results per thread are enough for the parent
        out = {"res": {n: [list(x) for x in {tuple(r) for r in got[n]}] for n in names},
               "runs": {n: len(got[n]) for n in names}}
    elif mode == "solo":
        out = {}
        for n in names:
            try:
                out[n] = ["ok", encode_fn(n)()]
            except Exception as e:  # noqa
                out[n] = ["exc", type(e).__name__ + ": " + str(e)[:200]]
    else:
        me, k = int(argv[2]), int(argv[3])
        from ..sched import Scheduler
        sch = Scheduler(os.path.dirname(rtflite.__file__))
        jobs = {f"T{i}:{n}": encode_fn(n) for i, n in enumerate(names)}
        keys = list(jobs)
        res, fin = sch.run(jobs, {keys[me]: {k: keys[1 - me]}}, keys[me], timeout=15)
        out = {"res": {kk: list(v) for kk, v in res.items()}, "finished": fin,
               "taken": [(t[0], t[1], t[2] + ":" + t[3]) for t in sch.taken]}
    import shutil
    shutil.rmtree(td, ignore_errors=True)
    sys.stdout = sys.__stdout__
    sys.stdout.write("\nRESULT:" + json.dumps(out) + "\n")
    sys.stdout.flush()
    os._exit(0)


def _fresh(args, timeout=400):
    import json
    import subprocess
    from ..run import HERE, PY
    env = dict(os.environ, PYTHONHASHSEED="0", POLARS_MAX_THREADS="1",
               PYTHONPATH=HERE + os.pathsep + os.environ.get("PYTHONPATH", ""))
    try:
        p = subprocess.run([PY, "-m", "rtfmon.props.c15", "--cold"] + [str(a) for a in args], cwd=HERE, env=env,
                           stdout=subprocess.PIPE, stderr=subprocess.PIPE, timeout=timeout)
    except subprocess.TimeoutExpired:
        return None
    for line in p.stdout.decode("utf-8", "replace").splitlines():
        if line.startswith("RESULT:"):
            return json.loads(line[7:])
    return {"crash": p.stderr.decode("utf-8", "replace")[-400:]}


def run_cold_one(ctx, names, me, k):
    want = _fresh(["solo", ",".join(names)])
    out = _fresh(["sched", ",".join(names), me, k])
    case = {"docs": names, "cold_start": True, "preempt_thread": me, "boundary": k}
    ctx.case(case, True)
    if not want or not out or "crash" in want or "crash" in out:
        ctx.notes.append("cold replay could not run")
        return
    for i, n in enumerate(names):
        got = out["res"].get(f"T{i}:{n}")
        if got != want[n]:
            ctx.violation(f"cold start: thread encoding {n} returned {str(got)[:90]} instead of its solo result",
                          case, {"taken": out["taken"]})


def run_cold(ctx, desc):
    """schedules that start in an interpreter which has NEVER encoded before: one-time initialisation
    (registries, lazily built tables) is then inside the window that can be preempted"""
    names = desc["docs"]
    want = _fresh(["solo", ",".join(names)])
    if not want or "crash" in want:
        ctx.notes.append("cold solo baseline failed: " + str(want)[:300])
        ctx.count("shard_crashed")
        return
    jobs = [(me, k) for me in (0, 1) for k in range(1, COLD_BOUNDARIES + 1)]
    for me, k in jobs[desc["lo"]::desc["step"]]:
        out = _fresh(["sched", ",".join(names), me, k])
        case = {"docs": names, "cold_start": True, "preempt_thread": me, "boundary": k}
        ctx.count("schedules_run")
        ctx.count("cold_start_schedules")
        if out is None or "crash" in out or not out.get("finished"):
            ctx.count("schedule_watchdog_fired")
            if out and "crash" in out:
                ctx.notes.append("cold child: " + out["crash"][-200:])
            ctx.case(case, False)
            continue
        ctx.case(case, bool(out["taken"]))
        ctx.sample({"case": case, "preemptions_taken": out["taken"]}, limit=4)
        ctx.count("preemptions_taken", len(out["taken"]))
        for t in out["taken"]:
            ctx.distinct("preemption_sites", t[2])
        for i, n in enumerate(names):
            ctx.count("thread_results_compared")
            got = out["res"].get(f"T{i}:{n}")
            if got != want[n]:
                ctx.violation(f"cold start: thread encoding {n} returned {str(got)[:90]} instead of its solo "
                              f"result {str(want[n])[:60]} (other thread: {names[1 - i]}, preempted at "
                              f"{out['taken']})", case, {"taken": out["taken"]})


def run_stress(ctx, desc):
    """free-running threads in fresh interpreters: preemption between any two bytecodes, unscheduled - what the
    baton scheduler (function entries only) cannot produce.  A difference is a violation; agreement says little."""
    names = desc["docs"]
    want = _fresh(["solo", ",".join(names)])
    if not want or "crash" in want:
        ctx.notes.append("stress solo baseline failed: " + str(want)[:300])
        ctx.count("shard_crashed")
        return
    for i in range(desc["procs"]):
        out = _fresh(["stress", ",".join(names), desc["reps"]])
        case = {"docs": names, "stress": True, "reps": desc["reps"]}
        ctx.count("stress_processes")
        if out is None or "crash" in out:
            ctx.count("schedule_watchdog_fired")
            ctx.case(dict(case, i=i), False)
            continue
        ctx.case(dict(case, i=i), True)
        for n in names:
            ctx.count("free_running_encodes_compared", out["runs"][n])
            ctx.count("thread_results_compared", out["runs"][n])
            bad = [r for r in out["res"][n] if r != want[n]]
            if bad:
                ctx.violation(f"free-running threads: encoding {n} next to {[m for m in names if m != n]} returned "
                              f"{str(bad[0])[:90]} instead of its solo result", case, {"distinct_results": len(out["res"][n])})


def run_shard(desc, ctx):
    if desc.get("kind") == "cold":
        run_cold(ctx, desc)
        return
    if desc.get("kind") == "stress":
        run_stress(ctx, desc)
        return
    rng = random.Random(desc["seed"])
    env = Env()
    try:
        if desc["kind"] == "single":
            names = desc["docs"]
            env.prepare(names)
            jobs = []
            for me in (0, 1):
                for k in range(1, env.nb[names[me]] + 1):
                    jobs.append((me, k))
            ctx.count("call_boundaries_" + "+".join(names), 0)
            # pairs of large documents have tens of thousands of boundaries: every s-th one, so that a pair costs
            # at most MAX_SINGLE schedules (the note in the evidence says which pairs were thinned)
            stride = max(1, -(-len(jobs) // MAX_SINGLE))
            if stride > 1:
                jobs = jobs[::stride]
                if desc["lo"] == 0:
                    ctx.notes.append(f"pair {'+'.join(names)}: every {stride}th of its call boundaries")
            for me, k in jobs[desc["lo"]::desc["step"]]:
                run_schedule(ctx, env, names, {me: {k: 1 - me}}, me, "single preemption")
            if desc["lo"] == 0 and names[0] in SHARED:
                ctx.count("component_objects_shared_between_the_threads_documents", getattr(env, "shared_objects", 0))
            if desc["lo"] == 0:
                ctx.count("boundaries_thread0", env.nb[names[0]])
                ctx.count("boundaries_thread1", env.nb[names[1]])
        elif desc["kind"] == "grid":
            names = desc["docs"]
            env.prepare(names)
            g = desc["g"]
            n0, n1 = env.nb[names[0]], env.nb[names[1]]
            # boundaries are denser where the shared colour state is touched: the first tenth of an encode
            # gets half of the grid points
            def pts(n):
                early = [max(1, round(n * 0.1 * (i + 1) / (g // 2))) for i in range(g // 2)]
                late = [max(1, round(n * (0.1 + 0.9 * (i + 1) / (g - g // 2 + 1)))) for i in range(g - g // 2)]
                return sorted(set(early + late))
            jobs = [(me, k1, k2) for me in (0, 1) for k1 in pts(n0 if me == 0 else n1)
                    for k2 in pts(n1 if me == 0 else n0)]
            for me, k1, k2 in jobs[desc["lo"]::desc["step"]]:
                ctx.count("double_preemption_grid_schedules")
                run_schedule(ctx, env, names, {me: {k1: 1 - me}, 1 - me: {k2: me}}, me, "two preemptions (grid)")
        else:
            for _ in range(desc["n"]):
                if rng.random() < 0.5:
                    names = list(rng.choice(PAIRS))
                else:
                    names = list(rng.choice(TRIPLES))
                if rng.random() < 0.5:
                    rng.shuffle(names)
                env.prepare(names)
                nt = len(names)
                npre = rng.choice([2, 2, 3, 3, 4])
                plan: dict = {}
                for _ in range(npre):
                    th = rng.randrange(nt)
                    k = rng.randint(1, env.nb[names[th]])
                    tgt = rng.choice([x for x in range(nt) if x != th])
                    plan.setdefault(th, {})[k] = tgt
                run_schedule(ctx, env, names, plan, rng.randrange(nt), f"{npre} preemptions, {nt} threads")
    finally:
        env.close()


def replay(data, ctx):
    case = data["case"]
    if case.get("stress"):
        run_stress(ctx, {"docs": case["docs"], "procs": 10, "reps": case.get("reps", 6)})
        return
    if case.get("cold_start"):
        global COLD_BOUNDARIES
        run_cold_one(ctx, case["docs"], case["preempt_thread"], case["boundary"])
        return
    env = Env()
    try:
        env.prepare(case["docs"])
        plan = {int(i): {int(k): t for k, t in pl.items()} for i, pl in case["plan"].items()}
        run_schedule(ctx, env, case["docs"], plan, case["first"], "replay")
    finally:
        env.close()


if __name__ == "__main__":
    import sys
    if len(sys.argv) > 2 and sys.argv[1] == "--cold":
        _cold_child(sys.argv[2:])
