"""C08 - all rows of a table share one right edge and proportional columns."""
from __future__ import annotations

import random

from .. import expect as E
from .. import gen as G
from .. import harness as H
from .. import reader as R
from .. import spec as S
from ..spec import strip_meta

PID = "C08"
LEVEL = "exploration"
RULE = ("tables with 1..12 columns, col_rel_width in [0.2,10] (explicit or default), col_width 2..12 in or the "
        "orientation default, headers default / explicit without widths / explicit with own widths / two-row "
        "spanning / none, page_by / subline_by / both removing 1..3 columns at any position, table footnote / "
        "source, multi-section documents with different column counts, component objects reused from an earlier "
        "document. non-trivial = >=2 displayed columns with unequal widths or >=1 removed column; distinct by spec hash")
ASSUMPTIONS = ["tolerance 1 twip on every boundary", "table width = rtf_page.col_width (orientation default when unset)"]
DECIDING = ["docs_parsed", "rows_checked", "header_rows_aligned", "docs_with_removed_columns", "reused_component_docs"]
FLOOR = {"quick": 1500, "thorough": 25000}


def plan(tier, seed):
    per = 200 if tier == "quick" else 2200
    return [{"n": per} for _ in range(16)]


def classify(v):
    return (v.get("detail") or {}).get("mech")


def table_width(page):
    if "col_width" in page:
        return page["col_width"]
    w = page.get("width")
    if page.get("orientation", "portrait") == "portrait":
        return (w or 8.5) - 2.25
    return (w or 11) - 2.5


def expected_bounds(widths, total):
    s = sum(widths)
    out = []
    acc = 0.0
    for w in widths:
        acc += w * total / s
        out.append(E.twips(acc))
    return out


def close(a, b, tol=1):
    return len(a) == len(b) and all(abs(x - y) <= tol for x, y in zip(a, b))


def section_expect(dfs, body, total):
    disp = E.displayed_columns(dfs, body)
    w = E.rel_widths(dfs, body)
    dw = [w[j] for j in disp] if w is not None else None
    return disp, dw


def check_doc(ctx, spec, doc_obj, case, label=""):
    import contextlib, io
    try:
        with contextlib.redirect_stdout(io.StringIO()):
            out = doc_obj.rtf_encode()
    except Exception as e:  # noqa
        info = H.exc_info(e)
        ctx.violation(f"rtf_encode raised {info['exc']} @ {info['where']} {label}", case, info)
        return
    doc = R.parse(out)
    ctx.count("docs_parsed")
    total = table_width(spec.get("page", {}))
    right = E.twips(total)
    secs = ([(s["df"], s.get("body", {}), s.get("colheader", "default")) for s in spec["sections"]]
            if spec.get("kind") == "multi" else [(spec["df"], spec.get("body", {}), spec.get("colheader", "default"))])
    if spec.get("kind") == "multi" and spec.get("multi_header") == "flat":
        secs = [(d, b, h if i == 0 else "none") for i, (d, b, h) in enumerate(secs)]
    # map global row index -> section
    sec_of_row = []
    for si, (dfs, body, h) in enumerate(secs):
        sec_of_row += [si] * S.nrows(dfs)
    exp = []
    removed_any = False
    for dfs, body, h in secs:
        disp, dw = section_expect(dfs, body, total)
        removed_any |= len(disp) < len(dfs["cols"])
        exp.append((disp, dw, expected_bounds(dw, total) if dw else None, h))
    if removed_any:
        ctx.count("docs_with_removed_columns")
    # section of every table row: a data row names it by its tag; header / heading rows belong
    # to the section of the next data row, footnote / source rows to that of the previous one
    seq = [(role, b) for page in doc.pages for role, b in E.page_roles(page) if b.kind == "row"]
    sec = [None] * len(seq)
    for i, (role, b) in enumerate(seq):
        if role == "data":
            k = E.data_key(b)
            if k and k[0] < len(sec_of_row):
                sec[i] = sec_of_row[k[0]]
    nxt = None
    for i in range(len(seq) - 1, -1, -1):
        if sec[i] is not None:
            nxt = sec[i]
        elif seq[i][0] in ("header", "header_auto", "heading"):
            sec[i] = nxt
    prev = 0
    for i in range(len(seq)):
        if sec[i] is None:
            sec[i] = prev if prev is not None else 0
        prev = sec[i]
    for i, (role, b) in enumerate(seq):
        if True:
            xs = [d.right for d in b.defs]
            ctx.count("rows_checked")
            cur = sec[i] if sec[i] is not None else 0
            disp, dw, bounds, h = exp[cur]
            if not xs or abs(xs[-1] - right) > 1:
                mech = None
                if role in ("header", "header_auto") and len(disp) < len(secs[cur][0]["cols"]):
                    mech = "inherited_header_widths_not_sliced"
                ctx.violation(f"{role} row ends at {xs[-1] if xs else None} twips, table width is {right} "
                              f"({total} in) {label}", case, {"role": role, "cellx": xs, "right": right, "mech": mech})
                continue
            if role == "data" and bounds is not None:
                if not close(xs, bounds):
                    ctx.violation(f"data row boundaries {xs} are not proportional to col_rel_width {dw} "
                                  f"(expected {bounds}) {label}", case, {"cellx": xs, "want": bounds})
            elif role in ("header", "header_auto") and bounds is not None:
                own = False
                if isinstance(h, list):
                    k = 0
                    if role == "header":
                        m = E.TAG_HDR.fullmatch(b.texts[0])
                        k = int(m.group(1)) % 10 if m else 0
                    own = k < len(h) and "col_rel_width" in h[k]
                if not own and len(xs) == len(disp):
                    ctx.count("header_rows_aligned")
                    if not close(xs, bounds):
                        mech = "inherited_header_widths_not_sliced" if len(disp) < len(secs[cur][0]["cols"]) else None
                        ctx.violation(f"{role} row {xs} does not line up with the data columns {bounds} {label}",
                                      case, {"cellx": xs, "want": bounds, "mech": mech})
            elif role in ("heading", "footnote_row", "source_row"):
                if len(xs) != 1:
                    ctx.violation(f"{role} row has {len(xs)} cells", case, {"cellx": xs})
            elif role is None:
                ctx.violation(f"unclassifiable row {b.texts!r}", case, None)


def gen_spec(rng):
    if rng.random() < 0.2:
        spec = G.gen_multi_spec(rng, ncols=(1, 8), same_cols=False, attrs_p=0.0, rich=0.0,
                                nrow=rng.choice([None, 8, 15]))
        for s in spec["sections"]:
            nc = len(s["df"]["cols"])
            if rng.random() < 0.6:
                s["body"]["col_rel_width"] = [round(rng.uniform(0.2, 10), rng.choice([0, 1, 2])) or 1 for _ in range(nc)]
        return spec
    strategy = rng.choice(["plain", "plain", "page_by", "page_by_new", "page_by_new_first", "subline",
                           "subline_page_by", "nested"])
    spec = G.gen_table_spec(rng, nrows=(0, 14), ncols=(1, 12), strategy=strategy, attrs_p=0.0, rich=0.0,
                            nrow=rng.choice([None, 5, 9, 20]), col_rel_width=rng.random() < 0.7,
                            header=rng.choice(["default", "explicit", "explicit", "explicit_w", "tworow", "none"]))
    nc = len(spec["df"]["cols"])
    if "col_rel_width" in spec["body"] and rng.random() < 0.5:
        spec["body"]["col_rel_width"] = [round(rng.uniform(0.2, 10), rng.choice([1, 2, 3])) for _ in range(nc)]
        if rng.random() < 0.1:
            # the ends of the quantifier's range side by side
            spec["body"]["col_rel_width"] = [rng.choice([0.2, 0.2, 1, 10, 10]) for _ in range(nc)]
    sbn = spec["body"].get("subline_by") or []
    if sbn and len(spec["body"].get("col_rel_width") or []) == nc and rng.random() < 0.4:
        # documented short form: widths only for the columns left once the subline_by columns are gone
        spec["body"]["col_rel_width"] = [w for c, w in zip(spec["df"]["cols"], spec["body"]["col_rel_width"])
                                         if c["name"] not in sbn]
    page = spec.setdefault("page", {})
    if rng.random() < 0.5:
        page["col_width"] = round(rng.uniform(2, 12), rng.choice([0, 1, 2, 3]))
    if spec.get("footnote") is not None and rng.random() < 0.7:
        spec["footnote"]["as_table"] = True
    if spec.get("source") is not None and rng.random() < 0.7:
        spec["source"]["as_table"] = True
    if nc >= 2 and rng.random() < 0.15:
        # two columns whose names differ only by surrounding blanks or letter case ("n" and "n ")
        a, b = rng.sample(range(nc), 2)
        old_b = spec["df"]["cols"][b]["name"]
        new_b = rng.choice([spec["df"]["cols"][a]["name"] + " ", " " + spec["df"]["cols"][a]["name"],
                            spec["df"]["cols"][a]["name"].lower()])
        if new_b in {c["name"] for c in spec["df"]["cols"]}:
            new_b = old_b           # (the general generator already made such a sibling: names stay unique)
        spec["df"]["cols"][b]["name"] = new_b
        for k in ("page_by", "subline_by", "group_by"):
            if isinstance(spec["body"].get(k), list):
                spec["body"][k] = [new_b if x == old_b else x for x in spec["body"][k]]
        for mk in ("page_by", "subline_by", "group_by"):
            if isinstance(spec.get("_meta", {}).get(mk), list):
                spec["_meta"][mk] = [new_b if x == old_b else x for x in spec["_meta"][mk]]
    return spec


def check_spec(ctx, rng, spec, reuse=False):
    case = strip_meta(spec)
    import rtflite as rtf
    try:
        kw = S.build_components(spec)
        if reuse and spec.get("kind", "table") == "table":
            # the same body / header / page objects were used by an earlier document of another shape
            other = G.gen_table_spec(rng, nrows=(1, 4), ncols=(1, 9), strategy="plain", attrs_p=0.0, header="default")
            okw = S.build_components(other)
            okw["rtf_body"] = kw["rtf_body"]
            if "rtf_column_header" in kw and spec.get("colheader") != "none" and not isinstance(spec.get("colheader"), list):
                okw["rtf_column_header"] = kw["rtf_column_header"]
            if "rtf_page" in kw:
                okw["rtf_page"] = kw["rtf_page"]
            try:
                first = rtf.RTFDocument(**okw)
                import contextlib, io
                with contextlib.redirect_stdout(io.StringIO()):
                    first.rtf_encode()
            except Exception:
                pass
            ctx.count("reused_component_docs")
        d = rtf.RTFDocument(**kw)
    except Exception as e:  # noqa
        ctx.count("rejected_at_construction")
        return
    dw = None
    if spec.get("kind", "table") == "table":
        disp, dw = section_expect(spec["df"], spec["body"], 1)
        nontriv = (dw is not None and len(set(dw)) > 1) or len(disp) < len(spec["df"]["cols"])
    else:
        nontriv = True
    ctx.case(case, nontriv)
    ctx.sample({"page": spec.get("page"), "body": {k: v for k, v in spec.get("body", {}).items()
                                                    if k in ("col_rel_width", "page_by", "subline_by", "new_page", "pageby_row")},
                "colheader": spec.get("colheader") if not isinstance(spec.get("colheader"), list) else
                [{k: v for k, v in h.items() if k in ("text", "col_rel_width")} for h in spec["colheader"]]}, limit=3)
    check_doc(ctx, spec, d, case, "(components reused from an earlier document)" if reuse else "")


def run_shard(desc, ctx):
    rng = random.Random(desc["seed"])
    for _ in range(desc["n"]):
        check_spec(ctx, rng, gen_spec(rng), reuse=rng.random() < 0.25)


def replay(data, ctx):
    check_spec(ctx, random.Random(0), data["case"], reuse=False)
    check_spec(ctx, random.Random(0), data["case"], reuse=True)
