"""C11 - text conversion translates exactly the documented tokens and nothing else.

Reader level: the rendered run of each text position is read back as an event
list (character + script state, line break, page fields) and compared with an
independent reference converter written from the statement.  Emitter level (for
the "stays verbatim" clauses, which a reader cannot see): a hook on the return
value of TextContent._convert_special_chars.
"""
from __future__ import annotations

import random
import re

from .. import harness as H
from .. import reader as R

PID = "C11"
LEVEL = "exploration"
RULE = ("all supported LaTeX commands (682, exhaustive) x 9 context templates (alone, start, middle, end, "
        "doubled, followed by letter / digit / punctuation / blank) as body cells; all ordered pairs and sampled "
        "triples of the special sequences (^ _ >= <= newline \\pagenumber \\totalpage \\pagefield, a command, plain "
        "text); random mixed texts; unknown commands and conversion-off texts at the emitter hook; every component "
        "kind (title, subline, column header, body incl. per-cell text_convert matrix, footnote, source, page "
        "header, page footer) with default and overridden text_convert. one case = one text in one position; "
        "non-trivial = contains >=1 conversion token; distinct by (text, position, convert)")
ASSUMPTIONS = ["the repository's latex_to_char dictionary as data defines 'supported command'",
               "script switches last until the end of the text (last switch wins), as RTF \\super/\\sub do",
               "keywords directly followed by a letter are not generated (the statement's two rules disagree there)"]
DECIDING = ["texts_compared_reader_level", "commands_covered", "emitter_hook_evaluations", "component_positions_checked",
            "conversion_off_calls_checked_at_hook"]
FLOOR = {"quick": 8000, "thorough": 60000}
EXHAUSTIVE_NOTE = {"quick": "all 682 table commands x 9 templates; all ordered pairs of 10 special sequences",
                   "thorough": "all 682 table commands x 9 templates; all ordered pairs and triples of 10 special sequences"}

TABLE = None
STD = re.compile(r"\\[a-zA-Z]+")
GEQ, LEQ = "\u2265", "\u2264"


def table():
    global TABLE
    if TABLE is None:
        from rtflite.dictionary.unicode_latex import latex_to_char
        TABLE = dict(latex_to_char)
    return TABLE


def exhaustive(tier):
    return False


# ---------------------------------------------------------------- reference

def ref_events(s: str, convert: bool, stats: dict | None = None):
    """-> list of events: ("ch", c, script) | ("line",) | ("field", name)"""
    ev = []
    if not convert:
        return [("ch", c, None) for c in s]
    T = table()
    extras = sorted((k for k in T if not re.fullmatch(r"\\[a-zA-Z]+(\{[^}]*\})?", k)), key=len, reverse=True)
    script = None
    i, n = 0, len(s)
    kw = (("\\pagenumber", "PAGENUM"), ("\\totalpage", "TOTALPAGE"), ("\\pagefield", "NUMPAGES"))
    while i < n:
        c = s[i]
        hit = False
        for w, name in kw:
            if s.startswith(w, i):
                ev.append(("field", name)); i += len(w); hit = True
                break
        if hit:
            continue
        if c == "^":
            script = "super"; i += 1; continue
        if c == "_":
            script = "sub"; i += 1; continue
        if s.startswith(">=", i) or s.startswith("<=", i):
            ev.append(("ch", GEQ if s[i] == ">" else LEQ, script)); i += 2
            if stats is not None:
                stats["digraphs"] = stats.get("digraphs", 0) + 1
            continue
        if c == "\n":
            ev.append(("line",)); i += 1; continue
        if c == "\\":
            for k in extras:
                if s.startswith(k, i):
                    ev.append(("ch", T[k], script)); i += len(k); hit = True
                    break
            if hit:
                continue
            m = STD.match(s, i)
            if m:
                name = m.group(0)
                j = m.end()
                if j < n and s[j] == "{":
                    e = s.find("}", j)
                    if e != -1:
                        key = s[i:e + 1]
                        if key in T:
                            ev.append(("ch", T[key], script)); i = e + 1; continue
                        ev.extend(("raw", x, script) for x in key); i = e + 1; continue
                if name in T:
                    ev.append(("ch", T[name], script)); i = j; continue
                ev.extend(("raw", x, script) for x in name); i = j; continue
        ev.append(("ch", c, script)); i += 1
    return ev


def read_events(para):
    ev = []
    for r in para.runs:
        t = r.text
        sc = r.props.get("script")
        if t == R.FIELD_PAGENUM:
            ev.append(("field", "PAGENUM"))
        elif t == R.FIELD_TOTALPAGE:
            ev.append(("field", "TOTALPAGE"))
        elif t == R.FIELD_NUMPAGES:
            ev.append(("field", "NUMPAGES"))
        else:
            for c in t:
                ev.append(("line",) if c == "\n" else ("ch", c, sc))
    return ev


def show(ev):
    out = []
    for e in ev:
        if e[0] in ("ch", "raw"):
            out.append(e[1] + ({"super": "\u02c4", "sub": "\u02c5"}.get(e[2], "")))
        elif e[0] == "line":
            out.append("<LINE>")
        else:
            out.append("<" + e[1] + ">")
    return "".join(out)


def explain(want, got, digraphs=0):
    """known mechanisms: a single blank leaked directly after a comparison sign that came from
    a literal digraph / after the NUMPAGES field"""
    w, g = list(want), list(got)
    i = 0
    kinds = set()
    removed_cmp = 0
    while i < len(g):
        if i < len(w) and w[i] == g[i]:
            i += 1
            continue
        if g[i][0] == "ch" and g[i][1] == " " and i > 0:
            j = i - 1
            while j > 0 and g[j][0] == "ch" and g[j][1] == " ":
                j -= 1
            prev = g[j]
            if prev[0] == "ch" and prev[1] in (GEQ, LEQ):
                kinds.add("blank_after_comparison_sign"); removed_cmp += 1; del g[i]; continue
            if prev == ("field", "NUMPAGES"):
                kinds.add("blank_after_numpages_field"); del g[i]; continue
        return None
    if w != g or not kinds:
        return None
    if "blank_after_comparison_sign" in kinds and removed_cmp != digraphs:
        return None     # every literal digraph leaks exactly one blank on the recorded tree; anything else is new
    return "+".join(sorted(kinds))


# ---------------------------------------------------------------- workloads

TEMPLATES = ["{c}", "{c} tail", "ab {c} cd", "head {c}", "{c}{c}", "{c}x", "{c}1", "{c}, z", "({c})"]
SPECIALS = ["^", "_", ">=", "<=", "\n", "\\pagenumber ", "\\totalpage ", "\\pagefield ", "\\alpha ", "x", " "]


def has_raw(ev):
    return any(e[0] == "raw" for e in ev)


def body_spec(texts, convert, matrix=None):
    cols = 4
    rows = (len(texts) + cols - 1) // cols
    padded = texts + [""] * (rows * cols - len(texts))
    c = [{"name": f"N{j}", "dtype": "str", "values": [padded[r * cols + j] for r in range(rows)]}
         for j in range(cols)]
    body = {"text_convert": convert if matrix is None else matrix}
    return {"kind": "table", "df": {"cols": c}, "body": body, "colheader": "none", "title": None,
            "page": {"nrow": 1000000}}, padded


_BATCH = [0]


def check_body_batch(ctx, texts, convert, label):
    """texts rendered as body cells of one document (reader level); every third document has other columns
    around the text columns - a grouping column that is taken out of the table (subline_by, or page_by shown as
    heading rows) in front, then a Float and a Date column - conversion is a matter of the CELL, wherever it sits"""
    spec, padded = body_spec(texts, convert)
    _BATCH[0] += 1
    mixed = _BATCH[0] % 3 == 0 and len(padded) >= 4
    if mixed:
        nr = len(padded) // 4
        lead = [{"name": "K", "dtype": "str", "values": ["SB0x0"] * nr},
                {"name": "F", "dtype": "floatx", "values": ["1.5", "nan", "-0.0", "2.0"][:1] * nr},
                {"name": "D", "dtype": "date", "values": ["2024-02-29"] * nr}]
        if _BATCH[0] % 2:
            lead = [lead[1], lead[0], lead[2]]
        spec["df"]["cols"] = lead + spec["df"]["cols"]
        spec["body"]["subline_by" if _BATCH[0] % 6 == 0 else "page_by"] = ["K"]
        ctx.count("body_documents_with_removed_and_non_text_columns")
    o = H.build_and_encode(spec)
    if o.stage:
        ctx.violation(f"{o.stage} raised {type(o.exc).__name__}: {str(o.exc)[:120]}", {"texts": texts[:5]}, None)
        return
    doc = R.parse(o.out)
    if mixed:
        cells = [c for r in doc.rows() if len(r.cells) == 6 for c in r.cells[2:]]
    else:
        cells = [c for r in doc.rows() for c in r.cells]
    if len(cells) != len(padded):
        ctx.violation(f"cell count {len(cells)} != {len(padded)} ({label})", {"texts": texts[:5]},
                      {"errors": str(doc.errors[:3])})
        return
    for t, cell in zip(padded, cells):
        if not t:
            continue
        compare(ctx, t, convert, cell, "body", label)


def compare(ctx, text, convert, para, position, label):
    stats: dict = {}
    want = ref_events(text, convert, stats)
    if has_raw(want):
        return
    got = read_events(para)
    ntok = sum(1 for e in want if e[0] != "ch") + sum(1 for e in want if e[0] == "ch" and e[2]) + \
        (1 if "\\" in text or ">=" in text or "<=" in text else 0)
    ctx.case((text, position, convert), nontrivial=ntok > 0 and convert)
    ctx.count("texts_compared_reader_level")
    if len(text) < 40:
        ctx.sample({"text": text, "position": position, "convert": convert, "reads_as": show(got)}, limit=5)
    if want != got:
        mech = explain(want, got, stats.get("digraphs", 0))
        ctx.violation(f"{position} (convert={convert}, {label}): {text!r} reads as {show(got)!r}, "
                      f"reference {show(want)!r}", {"text": text, "position": position, "convert": convert},
                      {"mech": mech, "want": show(want), "got": show(got)})


class EmitHook:
    """emitter level: return value of TextContent._convert_special_chars, \\u escapes decoded"""
    UESC = re.compile(r"\\uc1\\u(-?\d+)\*")

    def __init__(self):
        self.calls = 0
        self.off_calls = 0
        self.log = None
        self.bad = []

    def install(self):
        from rtflite.row import TextContent
        self.cls = TextContent
        self.orig = TextContent._convert_special_chars
        hook = self

        def wrapped(self_t):
            res = hook.orig(self_t)
            hook.calls += 1
            if hook.log is not None:
                hook.log.append((self_t.text, self_t.convert, res))
            # invariant at the hook, evaluated on EVERY call of every workload: with conversion
            # off the emitted text is the input apart from character escaping
            # (the title/subline/page header path calls the converter a second time on its own,
            #  already formatted and escaped line - "\\fs24{\\f0 ...}" - whose result it discards)
            if not self_t.convert and "{\\f" not in self_t.text:
                hook.off_calls += 1
                # ("apart from character escaping": the escaping itself must still happen - what is emitted
                # goes into an \ansi file and has to be pure ASCII)
                if (EmitHook.decode(res) != self_t.text or not res.isascii()) and len(hook.bad) < 5:
                    hook.bad.append({"text": self_t.text, "emitted": res})
            return res
        TextContent._convert_special_chars = wrapped
        return self

    def uninstall(self):
        self.cls._convert_special_chars = self.orig

    @classmethod
    def decode(cls, s):
        units = []
        out = []
        pos = 0
        for m in cls.UESC.finditer(s):
            out.append(s[pos:m.start()])
            v = int(m.group(1))
            out.append(chr(v + 65536 if v < 0 else v))
            pos = m.end()
        out.append(s[pos:])
        t = "".join(out)
        # combine surrogates
        return t.encode("utf-16", "surrogatepass").decode("utf-16", "replace")


def long_group(rng):
    """a brace group far longer than examples use; a command inside it belongs to the group"""
    n = rng.choice([rng.randint(40, 120), rng.randint(250, 262), rng.randint(300, 700), rng.randint(1020, 1030),
                    rng.randint(4090, 4100)])
    fill = "".join(rng.choice(["word ", "x", " ", "12", "abc"]) for _ in range(n))[:n]
    if rng.random() < 0.5:
        fill += rng.choice([" 5 \\pm 2", "\\alpha", " \\beta x"])
    return "{" + fill + "}"


def emitter_checks(ctx, rng, hook, n):
    from rtflite.row import TextContent
    T = table()
    alpha = "abcdefghijklmnopqrstuvwxyzABCDEFGHIJKLMNOPQRSTUVWXYZ"
    plain = "abc XYZ 019 .,;:!?()+-*/%&#@'\"|~<> " + "\u00e9\u03b1\u20ac\U0001F600"
    for _ in range(n):
        r = rng.random()
        if r < 0.5:
            # conversion off: everything verbatim apart from escaping
            toks = [rng.choice(SPECIALS + ["\\beta", "\\unknowncmd", "{", "}", "\\", "\\mathbb{R}", "caf\u00e9",
                                           "\U0001F600", ">= ", "a_b^c"]) for _ in range(rng.randint(1, 8))]
            text = "".join(toks)
            got = TextContent(text=text, convert=False)._convert_special_chars()
            ctx.count("emitter_hook_evaluations")
            ctx.case((text, "emitter", False), True)
            if EmitHook.decode(got) != text or not got.isascii():
                ctx.violation(f"conversion off but text altered or left unescaped: {text!r} -> {got!r}",
                              {"text": text, "position": "emitter", "convert": False}, {"got": got})
        elif r < 0.7:
            # conversion on: a SUPPORTED command directly followed by a brace group is looked up together
            # with the group; when that lookup misses (empty group, unknown argument) the text stays verbatim
            known = rng.choice([c for c in T if c[1:].isalpha()])
            grp = rng.choice(["{}", "{}", "{x}", "{ab c}", "{1}", long_group(rng), "{{x}}", "{a{b}c}", "{{}", "{{x}",
                              "{ {y} }"])
            if len(grp) > 20:
                ctx.count("long_brace_groups_at_emitter")
            if (known + grp) in T:
                continue
            pre = "".join(rng.choice(plain) for _ in range(rng.randint(0, 5)))
            suf = rng.choice(["", "g", " 2", ", z", " \\alpha"])
            text = pre + known + grp + suf
            got = EmitHook.decode(TextContent(text=text, convert=True)._convert_special_chars())
            want = pre + known + grp + suf.replace("\\alpha", "\u03b1")
            ctx.count("emitter_hook_evaluations")
            ctx.count("known_command_with_unmapped_group")
            ctx.case((text, "emitter", True), True)
            if got != want:
                ctx.violation(f"supported command + brace group without a table entry not left verbatim: {text!r} -> "
                              f"{got!r} (expected {want!r})", {"text": text, "position": "emitter", "convert": True},
                              {"got": got, "want": want})
        else:
            # conversion on: unknown commands stay verbatim; known neighbours still convert
            name = "\\" + "".join(rng.choice(alpha) for _ in range(rng.randint(2, 9)))
            if name in T or name in ("\\pagenumber", "\\totalpage", "\\pagefield", "\\super", "\\sub", "\\line",
                                     "\\geq", "\\leq", "\\chpgn"):
                continue
            grp = rng.choice(["", "", "{x}", "{ab c}", "{}", long_group(rng), "{{x}}", "{a{b}c}", "{{\\alpha}}"])
            if len(grp) > 20:
                ctx.count("long_brace_groups_at_emitter")
            if (name + grp) in T:
                continue
            pre = "".join(rng.choice(plain) for _ in range(rng.randint(0, 6)))
            suf = rng.choice(["", " ", " tail", ", z", "1", "(", " \\alpha"])
            if grp == "" and suf[:1].isalpha():
                suf = " " + suf
            text = pre + name + grp + suf
            got = EmitHook.decode(TextContent(text=text, convert=True)._convert_special_chars())
            want = pre + name + grp + suf.replace("\\alpha", "\u03b1")
            ctx.count("emitter_hook_evaluations")
            ctx.case((text, "emitter", True), True)
            if got != want:
                ctx.violation(f"unknown command not left verbatim: {text!r} -> {got!r} (expected {want!r})",
                              {"text": text, "position": "emitter", "convert": True}, {"got": got, "want": want})


def check_toggle_pairs(ctx, rng, hook):
    """the SAME text in neighbouring cells / components, converted in one and not in the other
    (per-cell text_convert matrix; footnote on, source off)"""
    T = [c for c in table() if c[1:].isalpha()]
    n = rng.randint(2, 6)
    texts = []
    for _ in range(n):
        c = rng.choice(T)
        texts.append(rng.choice(["Dose {c} level", "{c}", "x {c}, y", "{c} {c}"]).replace("{c}", c))
    order = rng.choice([[True, False], [False, True], [True, False, True], [False, True, False]])
    cols = [{"name": f"N{j}", "dtype": "str", "values": list(texts)} for j in range(len(order))]
    shared = rng.choice(texts)
    spec = {"kind": "table", "df": {"cols": cols}, "body": {"text_convert": [order]}, "colheader": "none",
            "title": {"text": shared}, "subline": {"text": shared},
            "footnote": {"text": shared, "as_table": rng.random() < 0.5},
            "source": {"text": shared, "text_convert": False, "as_table": rng.random() < 0.5}}
    hook.log = []
    o = H.build_and_encode(spec)
    log, hook.log = hook.log, None
    if o.stage:
        ctx.violation(f"{o.stage} raised {type(o.exc).__name__}: {str(o.exc)[:100]}", {"spec": spec}, None)
        return
    ctx.count("toggle_pair_documents")
    for text, conv, res in log:
        ctx.count("emitter_hook_evaluations")
        ctx.case((text, "toggle", conv), True)
        got = EmitHook.decode(res)
        if not conv:
            want = text
        else:
            ev = ref_events(text, True)
            if has_raw(ev) or any(e[0] != "ch" for e in ev):
                continue
            want = "".join(e[1] for e in ev)
        if got != want:
            ctx.violation(f"same text with conversion {'on' if conv else 'off'} next to the opposite setting: "
                          f"{text!r} emitted as {got!r}, expected {want!r}",
                          {"text": text, "position": "emitter", "convert": conv}, {"order": order})


def rand_text(rng):
    T = list(table())
    toks = []
    for _ in range(rng.randint(1, 9)):
        r = rng.random()
        if r < 0.3:
            toks.append(rng.choice(["x", "ab", " ", "1", ".", ",", "(", ")", "-", "Z9", "\u00e9", "\u03a9", " = "]))
        elif r < 0.55:
            c = rng.choice(T)
            if "{" in c or not c[1:].isalpha():
                toks.append(c)
            else:
                toks.append(c + rng.choice([" ", "1", ",", "", "("]))
                if toks[-1] == c:
                    toks.append(rng.choice([" ", "2", ".", ")"]))
        else:
            toks.append(rng.choice(SPECIALS))
    return "".join(toks)


def scale_text(rng):
    """sizes that small examples never reach: a brace group of several hundred characters after a command,
    a text of a few thousand characters, a hundred commands in one text"""
    T = [c for c in table() if c[1:].isalpha()]
    r = rng.random()
    if r < 0.5:
        n = rng.choice([rng.randint(1, 30), rng.randint(250, 262), rng.randint(300, 700), rng.randint(1020, 1030),
                        rng.randint(4090, 4100)])
        fill = []
        while sum(map(len, fill)) < n:
            fill.append(rng.choice(["abc ", "x", " ", "12", rng.choice(T) + " ", ">=", "<=", "^", "_", "\\unknowncmd "]))
        group = "".join(fill)[:n].replace("}", ")")
        if group.endswith("\\"):
            group = group[:-1] + "."
        head = rng.choice([rng.choice(T), "\\unknowncmd", "\\mathbb", "\\text"])
        return rng.choice(["", "a ", "5 "]) + head + "{" + group + "}" + rng.choice(["", " b", rng.choice(T)])
    if r < 0.8:
        return " ".join(rand_text(rng) for _ in range(rng.randint(40, 200)))
    return "".join(rng.choice(T) + rng.choice([" ", ",", "1"]) for _ in range(rng.randint(100, 300)))


COMPONENTS = ["title", "subline", "colheader", "body", "footnote", "source", "page_header", "page_footer"]
DEFAULT_CONVERT = {"title": True, "subline": False, "colheader": True, "body": True, "footnote": True,
                   "source": True, "page_header": False, "page_footer": False}


def check_components(ctx, rng):
    """one document with a payload in every component kind, default / overridden text_convert"""
    tags = {"title": "TT0", "subline": "SL0", "colheader": "H0c0", "footnote": "FN0", "source": "SR0",
            "page_header": "PH0", "page_footer": "PF0"}
    conv = {}
    spec = {"kind": "table"}
    payload = {}
    for comp in COMPONENTS:
        if rng.random() < 0.5:
            conv[comp] = rng.random() < 0.5
        eff = conv.get(comp, DEFAULT_CONVERT[comp])
        t = rand_text(rng)
        if not eff:
            t = t.replace("\n", " ").replace("\\", "/").replace("{", "(").replace("}", ")")
        if comp in ("footnote", "source"):
            t = t.replace("\n", " ")   # lines of these components are joined with \line by design
        payload[comp] = t
    # body: 2x2 with a per-cell conversion matrix
    m = [[rng.random() < 0.5 for _ in range(2)] for _ in range(2)]
    btexts = [[rand_text(rng) for _ in range(2)] for _ in range(2)]
    for r in range(2):
        for c in range(2):
            if not m[r][c]:
                btexts[r][c] = btexts[r][c].replace("\n", " ").replace("\\", "/").replace("{", "(").replace("}", ")")
    use_matrix = rng.random() < 0.6
    if not use_matrix:
        flag = conv.get("body", True)
        m = [[flag, flag], [flag, flag]]
        for r in range(2):
            for c in range(2):
                if not flag:
                    btexts[r][c] = btexts[r][c].replace("\n", " ").replace("\\", "/").replace("{", "(").replace("}", ")")
    spec["df"] = {"cols": [{"name": f"N{c}", "dtype": "str",
                            "values": [f"d{r}c{c} " + btexts[r][c] for r in range(2)]} for c in range(2)]}
    spec["body"] = {"text_convert": m if use_matrix else m[0][0]}
    for comp, tag in tags.items():
        kw = {"text": tag + " " + payload[comp]}
        if comp in conv:
            kw["text_convert"] = conv[comp]
        if comp in ("footnote", "source"):
            kw["as_table"] = rng.random() < 0.5
        if comp == "colheader":
            kw["text"] = [kw["text"], "H0c1"]
            spec["colheader"] = [kw]
        else:
            spec[comp] = kw
    o = H.build_and_encode(spec)
    if o.stage:
        ctx.violation(f"{o.stage} raised {type(o.exc).__name__}: {str(o.exc)[:100]}", {"spec": spec}, None)
        return
    doc = R.parse(o.out)
    paras = {}
    for page in doc.pages:
        for b in page.blocks:
            if b.kind == "para":
                paras.setdefault(b.text[:3], b)
            elif b.kind == "row":
                for cpar in b.cells:
                    paras.setdefault(cpar.text[:4], cpar)
                    paras.setdefault(cpar.text[:3], cpar)
    for grp in doc.headers + doc.footers:
        for b in grp:
            if b.kind == "para":
                paras.setdefault(b.text[:3], b)
    for comp, tag in tags.items():
        eff = conv.get(comp, DEFAULT_CONVERT[comp])
        p = paras.get(tag[:3]) or paras.get(tag[:4])
        ctx.count("component_positions_checked")
        ctx.distinct("component_convert_combos", f"{comp}:{'default' if comp not in conv else conv[comp]}")
        if p is None:
            ctx.violation(f"{comp} text not found in output", {"comp": comp, "text": payload[comp]}, None)
            continue
        compare(ctx, tag + " " + payload[comp], eff, p, comp, "component")
    for r in range(2):
        for c in range(2):
            p = paras.get(f"d{r}c{c}")
            ctx.count("component_positions_checked")
            if p is None:
                ctx.violation("body cell not found", {"cell": [r, c]}, None)
                continue
            compare(ctx, f"d{r}c{c} " + btexts[r][c], m[r][c], p, "body_cell_matrix" if use_matrix else "body", "component")


def plan(tier, seed):
    descs = [{"kind": "commands", "lo": i, "step": 4} for i in range(4)]
    descs.append({"kind": "specials", "triples": 0 if tier == "quick" else 1})
    nr = 6 if tier == "quick" else 10
    per = 1200 if tier == "quick" else 8000
    for _ in range(nr):
        descs.append({"kind": "random", "n": per, "components": 60 if tier == "quick" else 500})
    return descs


def classify(v):
    return (v.get("detail") or {}).get("mech")


def run_shard(desc, ctx):
    rng = random.Random(desc["seed"])
    hook = EmitHook().install()
    try:
        if desc["kind"] == "commands":
            cmds = sorted(table())[desc["lo"]::desc["step"]]
            texts = []
            for c in cmds:
                ctx.count("commands_covered")
                for t in TEMPLATES:
                    texts.append(t.replace("{c}", c))
            # a command and a longer command that starts with it, in one text, both orders
            allc = sorted(c for c in table() if c[1:].isalpha())
            pairs = [(a, b) for a in cmds if a[1:].isalpha() for b in allc if b != a and b.startswith(a)]
            for a, b in pairs:
                ctx.count("prefix_pairs_covered")
                texts.append(f"{a} x {b} y")
                texts.append(f"{b} x {a} y {b}")
                texts.append(f"{a} {a}z {b}")
            for i in range(0, len(texts), 1000):
                check_body_batch(ctx, texts[i:i + 1000], True, "command x template")
        elif desc["kind"] == "specials":
            import itertools
            texts = ["a" + x + y + "b" for x, y in itertools.product(SPECIALS, repeat=2)]
            if desc["triples"]:
                texts += ["a" + x + y + z + "b" for x, y, z in itertools.product(SPECIALS, repeat=3)]
            else:
                texts += ["a" + "".join(rng.choice(SPECIALS) for _ in range(3)) + "b" for _ in range(300)]
            # degenerate sizes: a text that IS one special sequence, every one-character text, two characters
            singles = [x for x in SPECIALS] + [x.strip() for x in SPECIALS if x.strip()]
            singles += [chr(c) for c in range(0x20, 0x7F) if chr(c) not in "\\{}"]
            singles += [a + b for a in "^_>x" for b in "^_=\nx "]
            ctx.count("one_and_two_character_texts", len(singles))
            check_body_batch(ctx, singles, True, "degenerate texts")
            ctx.count("commands_covered", 0)
            for i in range(0, len(texts), 1000):
                check_body_batch(ctx, texts[i:i + 1000], True, "adjacent specials")
            off = [t.replace("\n", " ").replace("\\", "/").replace("{", "(").replace("}", ")") for t in texts[:400]]
            check_body_batch(ctx, off, False, "conversion off")
        else:
            texts = [rand_text(rng) for _ in range(desc["n"])]
            for i in range(0, len(texts), 1000):
                check_body_batch(ctx, texts[i:i + 1000], True, "random mixed")
            big = [scale_text(rng) for _ in range(max(20, desc["n"] // 40))]
            ctx.count("long_texts_and_groups", len(big))
            for i in range(0, len(big), 50):
                check_body_batch(ctx, big[i:i + 50], True, "long text / long brace group")
            for _ in range(desc["components"]):
                check_components(ctx, rng)
                check_toggle_pairs(ctx, rng, hook)
            emitter_checks(ctx, rng, hook, desc["n"] // 2)
        if hook.bad:
            b = hook.bad[0]
            ctx.violation(f"conversion off but the emitter altered the text: {b['text']!r} -> {b['emitted']!r}",
                          {"text": b["text"], "position": "emitter", "convert": False}, {"more": hook.bad[1:]})
    finally:
        ctx.count("convert_special_chars_calls", hook.calls)
        ctx.count("conversion_off_calls_checked_at_hook", hook.off_calls)
        hook.uninstall()


def replay(data, ctx):
    c = data["case"]
    hook = EmitHook().install()
    try:
        if c.get("position") == "emitter":
            from rtflite.row import TextContent
            got = TextContent(text=c["text"], convert=c["convert"])._convert_special_chars()
            print("emitter returns:", repr(got))
            emitter_checks(ctx, random.Random(0), hook, 200)
        elif "text" in c:
            check_body_batch(ctx, [c["text"]], c["convert"], "replay")
    finally:
        hook.uninstall()
