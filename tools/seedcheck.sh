#!/bin/sh
# usage: tools/seedcheck.sh <seed-name> <dir-with-patch.diff,demo.py,notes.json> ID [ID...]
# Confirms a seeded change in a fresh scratch worktree (demo passes without it, the unedited test suite passes
# with it, demo fails with it), then runs the named checks against it.  Nothing is applied to /repo.
set -u
name="$1"; src="$2"; shift 2
dst="/verif/seeded/$name"; mkdir -p "$dst"
for f in patch.diff demo.py notes.json; do [ -f "$src/$f" ] && cp "$src/$f" "$dst/$f"; done
wt=$(mktemp -d /tmp/rtfseed.XXXXXX)
git -C /repo worktree add -q --detach "$wt" "${BASE:-HEAD}" || exit 2
cd "$wt" || exit 2
PYTHONPATH="$wt/src" /venv/bin/python "$dst/demo.py" >/dev/null 2>&1; d0=$?
git apply "$dst/patch.diff" 2>/dev/null || git apply --3way "$dst/patch.diff" || { echo "PATCH DOES NOT APPLY"; git -C /repo worktree remove --force "$wt"; exit 2; }
t=$(PYTHONPATH="$wt/src" /venv/bin/python -m pytest -q -p no:cacheprovider 2>&1 | tail -1)
PYTHONPATH="$wt/src" /venv/bin/python "$dst/demo.py" >/dev/null 2>&1; d1=$?
echo "seed=$name demo_clean_exit=$d0 demo_changed_exit=$d1 tests: $t"
cd /verif || exit 2
for id in "$@"; do
  RTFMON_REPO="$wt" ./check "$id" --tier "${TIER:-quick}" > "$wt.out" 2>&1; r=$?
  echo "== $id exit=$r"; grep -E "^(VIOLATION|INCONCLUSIVE)|^  \[|held on" "$wt.out" | cut -c1-230 | head -${LINES_MAX:-4}
done
rm -f "$wt.out"
git -C /repo worktree remove --force "$wt"
rm -rf "/verif/.work/scratch-$(basename "$wt")"
